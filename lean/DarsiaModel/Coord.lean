/-
Coordinate systems of images (C01; reused by C02, C19).

Mirrors `darsia/image/coordinatesystem.py` (`CoordinateSystem.coordinate`, `.voxel`,
`.num_voxels`, `.length`), `Image.__init__` (default origin), `Image.voxel_size`,
`Image.opposite_corner` and the typed points of `darsia/utils/point.py`, computing in `Rat`
where the code computes in `float`.

The axis map (Cartesian axis ↦ matrix position, reversed?) is NOT written here: it is the table
`Darsia.Gen.interpret`, re-tabulated from the running `interpret_indexing` by every check.
Core Lean only.
-/
import DarsiaModel.Basic
import DarsiaModel.Indexing
import DarsiaGen.IndexingTables
namespace Darsia

/-- per Cartesian axis `i` (list position) the matrix position and the reversal flag -/
abbrev AxisMap := List (Nat × Bool)

/-- `[interpret_indexing(a, "ijk"[:d]) for a in "xyz"[:d]]` — what `coordinate`/`voxel` loop over -/
def axisMap (d : Dim) : Except Err AxisMap := d.cartAxes.mapM fun a => Gen.interpret a d.mat

/-- `[interpret_indexing(m, "xyz"[:d]) for m in "ijk"[:d]]` — what `Image.__init__`/`subregion` loop over -/
def matMap (d : Dim) : Except Err AxisMap := d.matAxes.mapM fun a => Gen.interpret a d.cart

/-- all orderings of the matrix positions of a dimension -/
def permsOf : Dim → List (List Nat)
  | .d1 => [[0]]
  | .d2 => [[0, 1], [1, 0]]
  | .d3 => [[0, 1, 2], [0, 2, 1], [1, 0, 2], [1, 2, 0], [2, 0, 1], [2, 1, 0]]

/-- an axis map is well formed when its positions are a permutation of the matrix axes -/
def AxisMap.wf (am : AxisMap) (d : Dim) : Bool := decide (am.map Prod.fst ∈ permsOf d)

/-- the axis map of a dimension can be evaluated and is well formed -/
def axisMapOk (d : Dim) : Bool := match axisMap d with | .ok am => am.wf d | .error _ => false

/-- geometry of an image: everything `CoordinateSystem.__init__` reads from the image -/
structure CS where
  dim : Dim
  /-- `img.shape[:dim]` (matrix order) -/
  shape : List Nat
  /-- `Image.dimensions` (matrix order) -/
  dims : List Rat
  /-- `Image.origin` (Cartesian order) -/
  origin : List Rat
  deriving Repr, DecidableEq

def sgn (r : Bool) : Rat := if r then -1 else 1

/-- `Image.voxel_size[p] = dimensions[p] / num_voxels[p]` -/
def CS.h (cs : CS) (p : Nat) : Rat := listGetD cs.dims p 0 / ((listGetD cs.shape p 0 : Nat) : Rat)

def CS.voxelSize (cs : CS) : List Rat := (List.range cs.dim.toNat).map cs.h

/-- one Cartesian component of `coordinate`: `origin[i] + scaling * voxel[pos] * voxel_size[axis]` -/
def coordAx (cs : CS) (v : List Rat) (i : Nat) (pr : Nat × Bool) : Rat :=
  listGetD cs.origin i 0 + sgn pr.2 * listGetD v pr.1 0 * cs.h pr.1

def coordWith (am : AxisMap) (cs : CS) (v : List Rat) : List Rat :=
  am.zipIdx.map fun q => coordAx cs v q.2 q.1

/-- one matrix component of `voxel`: `floor(scaling * (x[i] - origin[i]) / voxel_size[axis])` -/
def voxAx (cs : CS) (x : List Rat) (i : Nat) (pr : Nat × Bool) : Int :=
  Rat.floor (sgn pr.2 * (listGetD x i 0 - listGetD cs.origin i 0) / cs.h pr.1)

/-- the loop `pixel[:, pos] = ...` over the Cartesian axes, on an array of `dim` columns -/
def voxelWith (am : AxisMap) (cs : CS) (x : List Rat) : List Int :=
  am.zipIdx.foldl (fun px q => setAt px q.1.1 (voxAx cs x q.2 q.1)) (List.replicate am.length 0)

/-- `CoordinateSystem.coordinate` (single point) -/
def CS.coordinate (cs : CS) (v : List Rat) : Except Err (List Rat) :=
  (axisMap cs.dim).map fun am => coordWith am cs v

/-- `CoordinateSystem.voxel` (single point) -/
def CS.voxel (cs : CS) (x : List Rat) : Except Err (List Int) :=
  (axisMap cs.dim).map fun am => voxelWith am cs x

/-- batch forms: numpy evaluates the same expression row by row -/
def CS.coordinateB (cs : CS) (vs : List (List Rat)) : Except Err (List (List Rat)) := vs.mapM cs.coordinate
def CS.voxelB (cs : CS) (xs : List (List Rat)) : Except Err (List (List Int)) := xs.mapM cs.voxel

def ratsOfNats (l : List Nat) : List Rat := l.map fun n => ((n : Nat) : Rat)
def ratsOfInts (l : List Int) : List Rat := l.map fun n => ((n : Int) : Rat)

/-- `Image.opposite_corner = coordinatesystem.coordinate(shape[:dim])` -/
def CS.opposite (cs : CS) : Except Err (List Rat) := cs.coordinate (ratsOfNats cs.shape)

/-- default origin of `Image.__init__`: zero, except `dimensions[m]` on the Cartesian axis of every
reversed matrix axis `m` -/
def defaultOriginWith (mm : AxisMap) (dims : List Rat) : List Rat :=
  mm.zipIdx.foldl (fun o q => if q.1.2 then setAt o q.1.1 (listGetD dims q.2 0) else o)
    (List.replicate mm.length 0)

def defaultOrigin (d : Dim) (dims : List Rat) : Except Err (List Rat) :=
  (matMap d).map fun mm => defaultOriginWith mm dims

/-- `v + t` componentwise (integer voxel plus offset inside the voxel) -/
def vadd (v : List Int) (t : List Rat) : List Rat := List.zipWith (fun (a : Int) (b : Rat) => ((a : Int) : Rat) + b) v t

/-- unit step along matrix axis `a` -/
def stepAt (v : List Rat) (a : Nat) : List Rat := setAt v a (listGetD v a 0 + 1)

/-- `CoordinateSystem.num_voxels(length, axis)`: `ceil(length / voxel_size[axis])`, by matrix position -/
def CS.numVoxels (cs : CS) (len : Rat) (p : Nat) : Int := Rat.ceil (len / cs.h p)

/-! ### typed points (`darsia/utils/point.py`) -/

/-- `Voxel.__new__`: `np.floor(input).astype(int)` -/
def mkVoxel (xs : List Rat) : List Int := xs.map Rat.floor

/-- `VoxelCenter.__new__`: `np.floor(input).astype(int) + 0.5` -/
def mkCenter (xs : List Rat) : List Rat := xs.map fun x => ((Rat.floor x : Int) : Rat) + 1 / 2

/-- `astype(int)` on floats truncates toward zero (the behaviour of the constructors before the fix;
kept for the witness theorem) -/
def truncInt (x : Rat) : Int := if 0 ≤ x then x.floor else -((-x).floor)

inductive Pt
  | coord (x : List Rat)
  | vox (v : List Int)
  | ctr (c : List Rat)
  deriving Repr, DecidableEq

/-- `to_coordinate(coordinatesystem)` -/
def Pt.toCoordinate (cs : CS) : Pt → Except Err Pt
  | .coord x => .ok (.coord x)
  | .vox v => (cs.coordinate (ratsOfInts v)).map .coord
  | .ctr c => (cs.coordinate c).map .coord

/-- `to_voxel(coordinatesystem)` -/
def Pt.toVoxel (cs : CS) : Pt → Except Err Pt
  | .vox v => .ok (.vox v)
  | .ctr c => .ok (.vox (mkVoxel c))
  | .coord x => (cs.voxel x).map fun v => .vox (mkVoxel (ratsOfInts v))

/-- `to_voxel_center(coordinatesystem)` -/
def Pt.toVoxelCenter (cs : CS) : Pt → Except Err Pt
  | .ctr c => .ok (.ctr c)
  | .vox v => .ok (.ctr (mkCenter (ratsOfInts v)))
  | .coord x => (cs.voxel x).map fun v => .ctr (mkCenter (ratsOfInts v))

/-- centre of an integer voxel -/
def centerOf (v : List Int) : List Rat := v.map fun (a : Int) => ((a : Int) : Rat) + 1 / 2

/-- the guards under which the real code computes (no division by zero, matching lengths) -/
structure CS.ok (cs : CS) : Prop where
  shapeLen : cs.shape.length = cs.dim.toNat
  dimsLen : cs.dims.length = cs.dim.toNat
  originLen : cs.origin.length = cs.dim.toNat
  shapePos : ∀ s ∈ cs.shape, 0 < s
  dimsPos : ∀ D ∈ cs.dims, (0 : Rat) < D

end Darsia
