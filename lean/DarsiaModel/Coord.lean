/-
Coordinate systems of images (C01; reused by C02, C19).

Mirrors `darsia/image/coordinatesystem.py` (`CoordinateSystem.coordinate`, `.voxel`,
`.num_voxels`, `.length`), `Image.__init__` (default origin), `Image.voxel_size`,
`Image.opposite_corner` and the typed points of `darsia/utils/point.py`, computing in `Rat`
where the code computes in `float`.

The axis map (Cartesian axis ↦ matrix position, reversed?) is NOT written here: it is the table
`Darsia.Gen.interpret`, re-tabulated from the running `interpret_indexing` by every check.
Core Lean only.
-/
import DarsiaModel.Basic
import DarsiaModel.Indexing
import DarsiaGen.IndexingTables
namespace Darsia

/-- per Cartesian axis `i` (list position) the matrix position and the reversal flag -/
abbrev AxisMap := List (Nat × Bool)

/-- `[interpret_indexing(a, "ijk"[:d]) for a in "xyz"[:d]]` — what `coordinate`/`voxel` loop over -/
def axisMap (d : Dim) : Except Err AxisMap := d.cartAxes.mapM fun a => Gen.interpret a d.mat

/-- `[interpret_indexing(m, "xyz"[:d]) for m in "ijk"[:d]]` — what `Image.__init__`/`subregion` loop over -/
def matMap (d : Dim) : Except Err AxisMap := d.matAxes.mapM fun a => Gen.interpret a d.cart

/-- all orderings of the matrix positions of a dimension -/
def permsOf : Dim → List (List Nat)
  | .d1 => [[0]]
  | .d2 => [[0, 1], [1, 0]]
  | .d3 => [[0, 1, 2], [0, 2, 1], [1, 0, 2], [1, 2, 0], [2, 0, 1], [2, 1, 0]]

/-- an axis map is well formed when its positions are a permutation of the matrix axes -/
def AxisMap.wf (am : AxisMap) (d : Dim) : Bool := decide (am.map Prod.fst ∈ permsOf d)

/-- the axis map of a dimension can be evaluated and is well formed -/
def axisMapOk (d : Dim) : Bool := match axisMap d with | .ok am => am.wf d | .error _ => false

/-- geometry of an image: everything `CoordinateSystem.__init__` reads from the image -/
structure CS where
  dim : Dim
  /-- `img.shape[:dim]` (matrix order) -/
  shape : List Nat
  /-- `Image.dimensions` (matrix order) -/
  dims : List Rat
  /-- `Image.origin` (Cartesian order) -/
  origin : List Rat
  deriving Repr, DecidableEq

def sgn (r : Bool) : Rat := if r then -1 else 1

/-- `Image.voxel_size[p] = dimensions[p] / num_voxels[p]` -/
def CS.h (cs : CS) (p : Nat) : Rat := listGetD cs.dims p 0 / ((listGetD cs.shape p 0 : Nat) : Rat)

def CS.voxelSize (cs : CS) : List Rat := (List.range cs.dim.toNat).map cs.h

/-- one Cartesian component of `coordinate`: `origin[i] + scaling * voxel[pos] * voxel_size[axis]` -/
def coordAx (cs : CS) (v : List Rat) (i : Nat) (pr : Nat × Bool) : Rat :=
  listGetD cs.origin i 0 + sgn pr.2 * listGetD v pr.1 0 * cs.h pr.1

def coordWith (am : AxisMap) (cs : CS) (v : List Rat) : List Rat :=
  am.zipIdx.map fun q => coordAx cs v q.2 q.1

/-- one matrix component of `voxel`: `floor(scaling * (x[i] - origin[i]) / voxel_size[axis])` -/
def voxAx (cs : CS) (x : List Rat) (i : Nat) (pr : Nat × Bool) : Int :=
  Rat.floor (sgn pr.2 * (listGetD x i 0 - listGetD cs.origin i 0) / cs.h pr.1)

/-- the loop `pixel[:, pos] = ...` over the Cartesian axes, on an array of `dim` columns -/
def voxelWith (am : AxisMap) (cs : CS) (x : List Rat) : List Int :=
  am.zipIdx.foldl (fun px q => setAt px q.1.1 (voxAx cs x q.2 q.1)) (List.replicate am.length 0)

/-- `CoordinateSystem.coordinate` (single point) -/
def CS.coordinate (cs : CS) (v : List Rat) : Except Err (List Rat) :=
  (axisMap cs.dim).map fun am => coordWith am cs v

/-- `CoordinateSystem.voxel` (single point) -/
def CS.voxel (cs : CS) (x : List Rat) : Except Err (List Int) :=
  (axisMap cs.dim).map fun am => voxelWith am cs x

/-- batch forms: numpy evaluates the same expression row by row -/
def CS.coordinateB (cs : CS) (vs : List (List Rat)) : Except Err (List (List Rat)) := vs.mapM cs.coordinate
def CS.voxelB (cs : CS) (xs : List (List Rat)) : Except Err (List (List Int)) := xs.mapM cs.voxel

def ratsOfNats (l : List Nat) : List Rat := l.map fun n => ((n : Nat) : Rat)
def ratsOfInts (l : List Int) : List Rat := l.map fun n => ((n : Int) : Rat)

/-- `Image.opposite_corner = coordinatesystem.coordinate(shape[:dim])` -/
def CS.opposite (cs : CS) : Except Err (List Rat) := cs.coordinate (ratsOfNats cs.shape)

/-- default origin of `Image.__init__`: zero, except `dimensions[m]` on the Cartesian axis of every
reversed matrix axis `m` -/
def defaultOriginWith (mm : AxisMap) (dims : List Rat) : List Rat :=
  mm.zipIdx.foldl (fun o q => if q.1.2 then setAt o q.1.1 (listGetD dims q.2 0) else o)
    (List.replicate mm.length 0)

def defaultOrigin (d : Dim) (dims : List Rat) : Except Err (List Rat) :=
  (matMap d).map fun mm => defaultOriginWith mm dims

/-- `v + t` componentwise (integer voxel plus offset inside the voxel) -/
def vadd (v : List Int) (t : List Rat) : List Rat := List.zipWith (fun (a : Int) (b : Rat) => ((a : Int) : Rat) + b) v t

/-- unit step along matrix axis `a` -/
def stepAt (v : List Rat) (a : Nat) : List Rat := setAt v a (listGetD v a 0 + 1)

/-- `CoordinateSystem.num_voxels(length, axis)`: `ceil(length / voxel_size[axis])`, by matrix position -/
def CS.numVoxels (cs : CS) (len : Rat) (p : Nat) : Int := Rat.ceil (len / cs.h p)

/-! ### typed points (`darsia/utils/point.py`) -/

/-- `Voxel.__new__`: `np.floor(input).astype(int)` -/
def mkVoxel (xs : List Rat) : List Int := xs.map Rat.floor

/-- `VoxelCenter.__new__`: `np.floor(input).astype(int) + 0.5` -/
def mkCenter (xs : List Rat) : List Rat := xs.map fun x => ((Rat.floor x : Int) : Rat) + 1 / 2

/-- `astype(int)` on floats truncates toward zero (the behaviour of the constructors before the fix;
kept for the witness theorem) -/
def truncInt (x : Rat) : Int := if 0 ≤ x then x.floor else -((-x).floor)

inductive Pt
  | coord (x : List Rat)
  | vox (v : List Int)
  | ctr (c : List Rat)
  deriving Repr, DecidableEq

/-- `to_coordinate(coordinatesystem)` -/
def Pt.toCoordinate (cs : CS) : Pt → Except Err Pt
  | .coord x => .ok (.coord x)
  | .vox v => (cs.coordinate (ratsOfInts v)).map .coord
  | .ctr c => (cs.coordinate c).map .coord

/-- `to_voxel(coordinatesystem)` -/
def Pt.toVoxel (cs : CS) : Pt → Except Err Pt
  | .vox v => .ok (.vox v)
  | .ctr c => .ok (.vox (mkVoxel c))
  | .coord x => (cs.voxel x).map fun v => .vox (mkVoxel (ratsOfInts v))

/-- `to_voxel_center(coordinatesystem)` -/
def Pt.toVoxelCenter (cs : CS) : Pt → Except Err Pt
  | .ctr c => .ok (.ctr c)
  | .vox v => .ok (.ctr (mkCenter (ratsOfInts v)))
  | .coord x => (cs.voxel x).map fun v => .ctr (mkCenter (ratsOfInts v))

/-- centre of an integer voxel -/
def centerOf (v : List Int) : List Rat := v.map fun (a : Int) => ((a : Int) : Rat) + 1 / 2

/-- the guards under which the real code computes (no division by zero, matching lengths) -/
structure CS.ok (cs : CS) : Prop where
  shapeLen : cs.shape.length = cs.dim.toNat
  dimsLen : cs.dims.length = cs.dim.toNat
  originLen : cs.origin.length = cs.dim.toNat
  shapePos : ∀ s ∈ cs.shape, 0 < s
  dimsPos : ∀ D ∈ cs.dims, (0 : Rat) < D

end Darsia

/-! ## round 2: the remaining public surface of `CoordinateSystem`, `Image` geometry and the point helpers -/
namespace Darsia

/-- `CoordinateSystem.coordinate_vector`: `scaling * pixel_vector[pos] * voxel_size[axis]` per Cartesian axis -/
def coordVecWith (am : AxisMap) (cs : CS) (w : List Rat) : List Rat :=
  am.map fun pr => sgn pr.2 * listGetD w pr.1 0 * cs.h pr.1

def CS.coordinateVector (cs : CS) (w : List Rat) : Except Err (List Rat) :=
  (axisMap cs.dim).map fun am => coordVecWith am cs w

/-- matrix position of Cartesian axis `i` (`voxel_size[axis] = img.voxel_size[pos]`); `assert axis in self.axes` -/
def CS.axisPos (cs : CS) (i : Nat) : Except Err Nat :=
  if i < cs.dim.toNat then (axisMap cs.dim).map fun am => (listGetD am i (0, false)).1 else .error .assertion

/-- `CoordinateSystem.length(num, axis)` = `num * voxel_size[axis]` -/
def CS.length (cs : CS) (num : Rat) (i : Nat) : Except Err Rat := (cs.axisPos i).map fun p => num * cs.h p

/-- `CoordinateSystem.num_voxels(length, axis)` = `ceil(length / voxel_size[axis])` -/
def CS.numVoxelsAx (cs : CS) (len : Rat) (i : Nat) : Except Err Int := (cs.axisPos i).map fun p => cs.numVoxels len p

def minR (a b : Rat) : Rat := if a ≤ b then a else b
def maxR (a b : Rat) : Rat := if a ≤ b then b else a

/-- `min_coordinate` / `max_coordinate` (and the `domain` dict, `xmin, xmax, …`): componentwise min / max of the
origin and the opposite corner -/
def CS.minCoordinate (cs : CS) : Except Err (List Rat) := cs.opposite.map fun opp => List.zipWith minR cs.origin opp
def CS.maxCoordinate (cs : CS) : Except Err (List Rat) := cs.opposite.map fun opp => List.zipWith maxR cs.origin opp

/-- `Image.domain`: 1-D `(origin[0], opposite[0])`; 2-D `(origin[0], opposite[0], opposite[1], origin[1])`; 3-D raises -/
def CS.imageDomain (cs : CS) : Except Err (List Rat) := do
  let opp ← cs.opposite
  match cs.dim with
  | .d1 => pure [listGetD cs.origin 0 0, listGetD opp 0 0]
  | .d2 => pure [listGetD cs.origin 0 0, listGetD opp 0 0, listGetD opp 1 0, listGetD cs.origin 1 0]
  | .d3 => throw .notImpl

/-- `CoordinateSystem.voxels`: all voxels, first index fastest (`order="F"`); `coordinates` = their coordinates -/
def CS.voxels (cs : CS) : List (List Nat) := boxF cs.shape
def CS.coordinates (cs : CS) : Except Err (List (List Rat)) := cs.coordinateB (cs.voxels.map ratsOfNats)

/-- `Voxel(x, matrix_indexing=False)`: floor, then reverse the component order (`np.fliplr`) -/
def mkVoxelRev (xs : List Rat) : List Int := (mkVoxel xs).reverse
def mkCenterRev (xs : List Rat) : List Rat := (mkCenter xs).reverse

/-- `make_voxel / make_voxel_center / make_coordinate` on a 2-D array of points: every row must have 1–3 columns -/
def batchOk {α} (pts : List (List α)) : Except Err Unit :=
  match pts with
  | [] => .error .assertion          -- `np.array([])` is 1-D and empty: treated as a single (empty) point by the code; not modelled
  | p :: _ => if p.length = 1 ∨ p.length = 2 ∨ p.length = 3 then .ok () else .error .assertion

def mkVoxelB (pts : List (List Rat)) (matrixIndexing : Bool) : Except Err (List (List Int)) :=
  (batchOk pts).map fun _ => pts.map (if matrixIndexing then mkVoxel else mkVoxelRev)
def mkCenterB (pts : List (List Rat)) (matrixIndexing : Bool) : Except Err (List (List Rat)) :=
  (batchOk pts).map fun _ => pts.map (if matrixIndexing then mkCenter else mkCenterRev)
def mkCoordinateB (pts : List (List Rat)) : Except Err (List (List Rat)) := (batchOk pts).map fun _ => pts

/-! ### `check_equal_coordinatesystems` -/

def absQ (x : Rat) : Rat := if 0 ≤ x then x else -x

/-- `np.isclose(a, b)` with the default tolerances: `|a − b| ≤ 1e-8 + 1e-5·|b|` (NOT symmetric in a, b) -/
def npClose (a b : Rat) : Bool := decide (absQ (a - b) ≤ 1 / 100000000 + 1 / 100000 * absQ b)

/-- `np.allclose` of two 1-D arrays (numpy broadcasting: equal lengths, or one of length 1; otherwise ValueError) -/
def allcloseL (close : Rat → Rat → Bool) (a b : List Rat) : Except Err Bool :=
  if a.length = b.length then .ok ((List.zipWith close a b).all id)
  else if a.length = 1 then .ok (b.all fun y => close (listGetD a 0 0) y)
  else if b.length = 1 then .ok (a.all fun x => close x (listGetD b 0 0))
  else .error .value

inductive CsField | indexing | spaceDim | shape | dimensions | axes | voxelSize | originVoxel | oppositeVoxel
  deriving DecidableEq, Repr

/-- `voxel_size_equal = voxel_size_equal and np.isclose(cs1.voxel_size[axis], cs2.voxel_size[axis])` over `cs1.axes`
(short-circuit `and`; KeyError when `cs2` lacks the axis) -/
def voxelSizeClose (close : Rat → Rat → Bool) (c1 c2 : CS) : Except Err Bool := do
  let am1 ← axisMap c1.dim
  let am2 ← axisMap c2.dim
  (List.range c1.dim.toNat).foldlM (fun ok i =>
    if !ok then pure false
    else if c2.dim.toNat ≤ i then throw .key
    else pure (close (c1.h (listGetD am1 i (0, false)).1) (c2.h (listGetD am2 i (0, false)).1))) true

/-- `check_equal_coordinatesystems(cs1, cs2, exclude_size)` → `(success, failure_log)`, with the closeness test a
parameter; the comparisons are evaluated (and may raise) in the order of the code -/
def checkEqualWith (close : Rat → Rat → Bool) (c1 c2 : CS) (excludeSize : Bool) : Except Err (Bool × List CsField) := do
  let shapeOk ← if excludeSize then pure true else allcloseL close (ratsOfNats c1.shape) (ratsOfNats c2.shape)
  let dimsOk ← allcloseL close c1.dims c2.dims
  let vsOk ← if excludeSize then pure true else voxelSizeClose close c1 c2
  let orgOk ← allcloseL close c1.origin c2.origin
  let o1 ← c1.opposite
  let o2 ← c2.opposite
  let oppOk ← allcloseL close o1 o2
  let dimEq := decide (c1.dim = c2.dim)
  let log := (if dimEq then [] else [CsField.indexing, .spaceDim]) ++ (if shapeOk then [] else [.shape]) ++
    (if dimsOk then [] else [.dimensions]) ++ (if dimEq then [] else [.axes]) ++ (if vsOk then [] else [.voxelSize]) ++
    (if orgOk then [] else [.originVoxel]) ++ (if oppOk then [] else [.oppositeVoxel])
  pure (log.isEmpty, log)

def checkEqual (c1 c2 : CS) (excludeSize : Bool) : Except Err (Bool × List CsField) := checkEqualWith npClose c1 c2 excludeSize

end Darsia

/-! ### in-place life of an image's geometry (`Image.reset_origin`, assigning `origin` / `dimensions`) -/
namespace Darsia

/-- what can happen to the geometry of ONE image object between two conversions -/
inductive GeomOp
  | touch                          -- `img.coordinatesystem` / `opposite_corner` / `voxel_size` requested (builds a NEW CoordinateSystem from the current fields)
  | resetOrigin                    -- `img.reset_origin()`
  | setOrigin (o : List Rat)       -- `img.origin = …` / `update_metadata(origin=…)`
  | setDimensions (D : List Rat)   -- `img.dimensions = …`
  deriving Repr, DecidableEq

/-- `Image.coordinatesystem` is a property that constructs the coordinate system from the image's CURRENT fields:
the state of the model is just those fields, and requesting a conversion leaves it unchanged -/
def CS.applyOp (cs : CS) : GeomOp → Except Err CS
  | .touch => .ok cs
  | .resetOrigin => (defaultOrigin cs.dim cs.dims).map fun o => { cs with origin := o }
  | .setOrigin o => .ok { cs with origin := o }
  | .setDimensions D => .ok { cs with dims := D }

def CS.applyOps (cs : CS) (ops : List GeomOp) : Except Err CS := ops.foldlM CS.applyOp cs

/-- the guard under which an operation keeps the geometry well formed -/
def GeomOp.okFor (d : Dim) : GeomOp → Prop
  | .touch => True
  | .resetOrigin => True
  | .setOrigin o => o.length = d.toNat
  | .setDimensions D => D.length = d.toNat ∧ ∀ x ∈ D, (0 : Rat) < x

end Darsia

/-! ### remaining call forms -/
namespace Darsia

/-- target class of `BasePoint.to(cls, coordinatesystem)`: Coordinate(Array) / Voxel(Array) / VoxelCenter(Array) / anything else -/
inductive PtKind | coord | vox | ctr | other
  deriving Repr, DecidableEq

/-- `BasePoint.to(cls, coordinatesystem)`: dispatch on the class, NotImplementedError otherwise -/
def Pt.to (cs : CS) (k : PtKind) (p : Pt) : Except Err Pt :=
  match k with
  | .coord => p.toCoordinate cs
  | .vox => p.toVoxel cs
  | .ctr => p.toVoxelCenter cs
  | .other => .error .notImpl

/-- Python container handed to `coordinate` / `voxel` -/
inductive CallForm | list | tuple | array
  deriving Repr, DecidableEq

/-- `CoordinateSystem.coordinate` converts tuples and lists to arrays -/
def CS.coordinateForm (cs : CS) (_f : CallForm) (v : List Rat) : Except Err (List Rat) := cs.coordinate v

/-- `CoordinateSystem.voxel` converts lists only: a tuple fails `assert isinstance(coordinate, np.ndarray)` -/
def CS.voxelForm (cs : CS) (f : CallForm) (x : List Rat) : Except Err (List Int) :=
  match f with
  | .tuple => .error .assertion
  | _ => cs.voxel x

end Darsia


/-! ### `__getitem__` of the typed point arrays (`CoordinateArray`, `VoxelArray`, `VoxelCenterArray`) -/
namespace Darsia

inductive ArrKind | coord | vox | ctr
  deriving Repr, DecidableEq

/-- the key handed to `arr[key]`: a Python int, a 1-d integer index array, a 1-d boolean mask, anything else (slice, tuple, …) -/
inductive GetKey
  | int (k : Int)
  | idx (ks : List Int)
  | mask (m : List Bool)
  | other
  deriving Repr, DecidableEq

/-- class of the result: the ELEMENT class for an int key, the SAME array class for a 1-d ndarray key (index array or
mask), a plain ndarray otherwise -/
inductive ResKind | elem (k : ArrKind) | arr (k : ArrKind) | plain
  deriving Repr, DecidableEq

def getItemKind (k : ArrKind) : GetKey → ResKind
  | .int _ => .elem k
  | .idx _ => .arr k
  | .mask _ => .arr k
  | .other => .plain

def pyIdx (n : Nat) (k : Int) : Except Err Nat :=
  if 0 ≤ k ∧ k < n then .ok k.toNat else if k < 0 ∧ -(n : Int) ≤ k then .ok (k + n).toNat else .error .index

/-- numpy row selection `np.asarray(self)[key]` for the modelled keys -/
def selectRows {α} (rows : List α) : GetKey → Except Err (List α)
  | .int k => (pyIdx rows.length k).bind fun i => match rows[i]? with | some r => .ok [r] | none => .error .index
  | .idx ks => ks.mapM fun k => (pyIdx rows.length k).bind fun i => match rows[i]? with | some r => .ok r | none => .error .index
  | .mask m => if m.length = rows.length then .ok ((rows.zip m).filterMap fun p => if p.2 then some p.1 else none) else .error .index
  | .other => .error .notImpl

/-- the constructor the selected rows are passed through again (`VoxelCenterArray(np.asarray(self)[key])`, …) -/
def rewrap : ArrKind → List Rat → List Rat
  | .coord => id
  | .vox => fun r => ratsOfInts (mkVoxel r)
  | .ctr => mkCenter

/-- `arr[key]`: result class and rows -/
def getItem (k : ArrKind) (rows : List (List Rat)) (key : GetKey) : Except Err (ResKind × List (List Rat)) :=
  (selectRows rows key).map fun sel => (getItemKind k key, sel.map (rewrap k))

end Darsia
