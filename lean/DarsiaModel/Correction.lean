/-
C10 — model of the workflow shared by all corrections, `BaseCorrection.__call__`
(darsia/corrections/basecorrection.py), parameterised by
  f        the correction's `correct_array`, assumed to be a pure function of the array,
  fSeries  `correct_array_series` if the class declares one,
  g        `correct_metadata` (the declared metadata update).
Objects carry an identity tag (Python `is`), image data is either one array or the list of its time slices.
Purity / aliasing of a concrete `correct_array` is NOT expressible here; it is observed by the check.
-/
import DarsiaModel.Basic
namespace Darsia.Correction

/-- image data: a single space array or a space-time image given by its time slices -/
inductive Data (Arr : Type)
  | single (a : Arr)
  | series (slices : List Arr)
  deriving DecidableEq, Repr

/-- image kind (the Python class of the object) -/
inductive Kind | image | scalar | optical
  deriving DecidableEq, Repr

structure Obj (Arr Meta : Type) where
  tag : Nat
  kind : Kind
  data : Data Arr
  md : Meta

structure Corr (Arr Meta : Type) where
  f : Arr → Arr
  fSeries : Option (List Arr → List Arr)
  g : Meta → Meta
  /-- `dict.update`: metadata of the input overridden by the declared update -/
  upd : Meta → Meta → Meta

variable {Arr Meta : Type}

/-- the data part of the workflow -/
def Corr.onData (c : Corr Arr Meta) : Data Arr → Data Arr
  | .single a => .single (c.f a)
  | .series sl =>
    match c.fSeries with
    | some fs => .series (fs sl)
    | none => .series (sl.map c.f)

/-- `correction(array, overwrite)`: both branches return `correct_array` of the array -/
def Corr.callArray (c : Corr Arr Meta) (a : Arr) (_overwrite : Bool) : Arr := c.f a

/-- `correction(image, overwrite)`; `fresh` is the identity of a newly constructed object.
Returns (result, the input object as it is afterwards). -/
def Corr.callImage (c : Corr Arr Meta) (o : Obj Arr Meta) (overwrite : Bool) (fresh : Nat) :
    Obj Arr Meta × Obj Arr Meta :=
  let d := c.onData o.data
  let m := c.upd o.md (c.g o.md)
  if overwrite then
    let o' : Obj Arr Meta := { o with data := d, md := m }
    (o', o')
  else
    ({ tag := fresh, kind := o.kind, data := d, md := m }, o)

end Darsia.Correction
