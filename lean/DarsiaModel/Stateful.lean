/-
State logic of DarSIA's solvers and regularisers (C16), without the floating-point arithmetic:
  * `Jac`  — `darsia.Jacobi` (utils/linear_solvers/jacobi.py, solver.py): parameters set by the
    constructor / `update_params`, and the attributes `const_diag`, `const_diag_scaled`;
  * `MG`   — `darsia.MG` (mg.py): its own parameters, its smoother object, restriction / prolongation
    of heterogeneous coefficients inside the V-cycle;
  * the default-argument instances `solver=da.Jacobi()` of `H1_regularization` and
    `split_bregman_tvd` (one object per function, created at import, shared by all calls);
  * `AA`   — `darsia.AndersonAcceleration` (history matrices, reset when the inner iteration is 0);
  * `WObj` — the cached linear solver of a variational Wasserstein distance object.
A call returns a *record of everything its arithmetic reads* (which parameters the diagonal was
computed from, which iterates fill the Anderson matrices, which matrix the factorisation belongs to).
Two calls with equal records and equal array arguments perform the same floating-point operations.

`keep = true` reproduces the `hasattr` caching of `Jacobi.__call__` before the `fix:` commit,
`keep = false` the code after it (diagonal recomputed on every call).  `restore = false` reproduces
`MG.base_V_Cycle` before the second `fix:` (coefficients prolongated from the coarse level),
`restore = true` the code after it (fine-level coefficients and smoother put back).
-/
import DarsiaModel.Basic
namespace Darsia.Stateful

/-- a coefficient: unset, a number, or an array (identified by `id`) to which a word of restrictions
(`true`) and prolongations (`false`) has been applied, most recent first -/
inductive Coef where
  | unset
  | scalar (v : Rat)
  | array (id : Nat) (word : List Bool)
  deriving DecidableEq, Repr

def Coef.isArray : Coef → Bool
  | .array _ _ => true
  | _ => false

structure Params where
  dim : Nat
  mass : Coef
  diff : Coef
  deriving DecidableEq, Repr

/-- `Solver.update_params`: `None` keeps the old value -/
def Params.update (p : Params) (dim : Option Nat) (mass diff : Option Coef) : Params :=
  { dim := dim.getD p.dim, mass := mass.getD p.mass, diff := diff.getD p.diff }

/-- what `const_diag` / `const_diag_scaled` were computed from: parameters and grid spacing -/
structure DiagSrc where
  p : Params
  h : Rat
  deriving DecidableEq, Repr

structure Jac where
  p : Params
  maxiter : Nat
  tol : Option Rat
  cache : Option DiagSrc
  deriving DecidableEq, Repr

/-- everything the arithmetic of one Jacobi solve reads besides `x0`, `rhs` -/
structure JacRun where
  diag : DiagSrc
  maxiter : Nat
  tol : Option Rat
  deriving DecidableEq, Repr

def Jac.new (maxiter : Nat) (tol : Option Rat) (p : Params) : Jac :=
  { p := p, maxiter := maxiter, tol := tol, cache := none }

/-- `Jacobi.__call__(x0, rhs, h)` -/
def Jac.call (keep : Bool) (j : Jac) (h : Rat) : Jac × JacRun :=
  let src : DiagSrc := if keep then j.cache.getD ⟨j.p, h⟩ else ⟨j.p, h⟩
  ({ j with cache := some src }, ⟨src, j.maxiter, j.tol⟩)

def Jac.update (j : Jac) (dim : Option Nat) (mass diff : Option Coef) : Jac :=
  { j with p := j.p.update dim mass diff }

/-! ### multigrid -/

structure MG where
  p : Params
  maxiter : Nat
  depth : Nat
  smIter : Nat
  hetero : Bool
  smoother : Jac
  deriving DecidableEq, Repr

inductive MGEvent where
  | smooth (r : JacRun)
  | operator (p : Params) (h : Rat)
  deriving DecidableEq, Repr

def MG.new (depth smIter maxiter : Nat) (p : Params) : MG :=
  { p := p, maxiter := maxiter, depth := depth, smIter := smIter,
    hetero := p.mass.isArray || p.diff.isArray, smoother := Jac.new smIter none p }

def Coef.restrict : Coef → Coef
  | .array id w => .array id (true :: w)
  | c => c

def Coef.prolong : Coef → Coef
  | .array id w => .array id (false :: w)
  | c => c

/-- `restrict_parameters` / `prolongate_parameters`: new coefficients and a NEW smoother object -/
def MG.restrictParams (m : MG) : MG :=
  let p := { m.p with mass := m.p.mass.restrict, diff := m.p.diff.restrict }
  { m with p := p, smoother := Jac.new m.smIter none p }

def MG.prolongParams (m : MG) : MG :=
  let p := { m.p with mass := m.p.mass.prolong, diff := m.p.diff.prolong }
  { m with p := p, smoother := Jac.new m.smIter none p }

def MG.smooth (keep : Bool) (m : MG) (h : Rat) : MG × MGEvent :=
  ({ m with smoother := (m.smoother.call keep h).1 }, .smooth (m.smoother.call keep h).2)

/-- first half of `base_V_Cycle`: pre-smoothing, residual, restriction of heterogeneous coefficients.
Returns the object after pre-smoothing, the object handed to the coarse level, and the events. -/
def MG.pre (keep : Bool) (m : MG) (h : Rat) : MG × MG × List MGEvent :=
  let m1 := (m.smooth keep h).1
  (m1, if m1.hetero then m1.restrictParams else m1, [(m.smooth keep h).2, .operator m1.p h])

/-- second half: coefficients back on the fine level (`restore`: the saved fine-level coefficients and
smoother; otherwise `prolongate_parameters`), post-smoothing -/
def MG.post (restore keep : Bool) (m1 m3 : MG) (h : Rat) : MG × MGEvent :=
  let m4 := if m3.hetero then
      (if restore then { m3 with p := m1.p, smoother := m1.smoother } else m3.prolongParams)
    else m3
  m4.smooth keep h

/-- `base_V_Cycle(x0, rhs, depth, h)` -/
def MG.vcycle (restore keep : Bool) : Nat → MG → Rat → MG × List MGEvent
  | 0, m, h =>
    let P := MG.pre keep m h
    let S := P.2.1.smooth keep (2 * h)
    let Q := MG.post restore keep P.1 S.1 h
    (Q.1, P.2.2 ++ [S.2] ++ [Q.2])
  | d + 1, m, h =>
    let P := MG.pre keep m h
    let R := MG.vcycle restore keep d P.2.1 (2 * h)
    let Q := MG.post restore keep P.1 R.1 h
    (Q.1, P.2.2 ++ R.2 ++ [Q.2])

/-- `MG.__call__(x0, rhs)` without tolerance: `maxiter` V-cycles at `h = 1` -/
def MG.cycles (restore keep : Bool) : Nat → MG → MG × List MGEvent
  | 0, m => (m, [])
  | n + 1, m =>
    let V := MG.vcycle restore keep m.depth m 1
    let C := MG.cycles restore keep n V.1
    (C.1, V.2 ++ C.2)

def MG.call (restore keep : Bool) (m : MG) : MG × List MGEvent := MG.cycles restore keep m.maxiter m

def MG.update (m : MG) (dim : Option Nat) (mass diff : Option Coef) : MG :=
  { m with p := m.p.update dim mass diff, smoother := m.smoother.update dim mass diff }

/-! ### Anderson acceleration -/

/-- a column of `_Fk`/`_Gk`: zero (after reset) or `data − prev` for two argument pairs -/
inductive Col where
  | zero
  | diff (data prev : Option Nat)
  deriving DecidableEq, Repr

structure AA where
  depth : Nat
  restart : Option Nat
  ready : Bool             -- `reset` has run at least once (the attributes exist)
  cols : List Col          -- the `depth` columns
  prev : Option Nat        -- which argument pair `_fkm1`, `_gkm1` hold (none: zeros)
  deriving DecidableEq, Repr

/-- what one Anderson call reads: `none` for the unaccelerated first step, else the first `mk`
columns and the current argument pair -/
inductive AARun where
  | plain (data : Nat)
  | mixed (data : Nat) (cols : List Col)
  | attributeError
  deriving DecidableEq, Repr

def AA.new (depth : Nat) (restart : Option Nat) : AA :=
  { depth := depth, restart := restart, ready := false, cols := [], prev := none }

/-- `AndersonAcceleration.__call__(gk, fk, iteration)`; `data` identifies the pair `(gk, fk)` -/
def AA.call (a : AA) (data iteration : Nat) : AA × AARun :=
  let inner := match a.restart with
    | some r => iteration % r
    | none => iteration
  let a1 := if inner = 0 then { a with ready := true, cols := List.replicate a.depth Col.zero, prev := none } else a
  let mk := min inner a1.depth
  if mk > 0 then
    if a1.ready then
      let col := (iteration - 1) % a1.depth
      let cols := setAt a1.cols col (Col.diff (some data) a1.prev)
      ({ a1 with cols := cols, prev := some data }, .mixed data (cols.take mk))
    else (a1, .attributeError)
  else
    if a1.ready then ({ a1 with prev := some data }, .plain data) else (a1, .attributeError)

/-- what can be observed of one Anderson call from outside: was the history reset, how many columns are mixed -/
def AA.trace (a : AA) (iteration : Nat) : Bool × Nat :=
  let inner := match a.restart with
    | some r => iteration % r
    | none => iteration
  (inner == 0, min inner a.depth)

/-- a complete accelerated iteration: calls with iteration numbers `0, 1, …` and argument pairs `data` -/
def AA.run (a : AA) (start : Nat) : List Nat → AA × List AARun
  | [] => (a, [])
  | d :: ds =>
    ((AA.run (a.call d start).1 (start + 1) ds).1, (a.call d start).2 :: (AA.run (a.call d start).1 (start + 1) ds).2)

/-! ### cached linear solver of a Wasserstein distance object -/

/-- the factorisation / AMG hierarchy kept on the object belongs to some matrix (identified by the
problem data and the nonlinear iteration at which it was assembled) -/
structure WObj where
  solver : Option (Nat × Nat)
  deriving DecidableEq, Repr

/-- `linear_solve(matrix, rhs, reuse_solver)`: set up unless reuse is requested and a solver exists;
returns which matrix the solver used for this solve was built from, and whether it was set up now -/
def WObj.linearSolve (w : WObj) (matrix : Nat × Nat) (reuse : Bool) : WObj × (Nat × Nat × Bool) :=
  let setup := !reuse || w.solver.isNone
  let s := if setup then matrix else w.solver.getD matrix
  ({ solver := some s }, (s.1, s.2, setup))

/-- the nonlinear iterations.  `kind = 0`: Newton assembles a new matrix `(data, it + 1)` in every iteration
(`reuse_solver=False`).  `kind = 1`: Bregman keeps the matrix `(data, 1)` and re-uses the solver from the second iteration on
(`reuse_solver = iter > 0`).  `kind = k ≥ 2`: ADAPTIVE Bregman with the schedule `bregman_update(iter) = ((iter + 1) % k == 0)`:
when it fires, `_update_regularization` assembles a new matrix `(data, 1 + number of updates)` and the solver is set up again
(`reuse_solver=False`); otherwise as plain Bregman.  `u` counts the updates so far. -/
def WObj.iterations (kind : Nat) (w : WObj) (data : Nat) : Nat → Nat → Nat → WObj × List (Nat × Nat × Bool)
  | _, _, 0 => (w, [])
  | u, it, n + 1 =>
    let upd := decide (2 ≤ kind) && decide ((it + 1) % kind = 0)
    let u' := if upd then u + 1 else u
    let L := w.linearSolve (data, if kind = 0 then it + 1 else 1 + u') (decide (1 ≤ kind) && decide (it > 0) && !upd)
    ((WObj.iterations kind L.1 data u' (it + 1) n).1, L.2 :: (WObj.iterations kind L.1 data u' (it + 1) n).2)

/-- `_solve`: the initial Darcy system `(data, 0)` is solved with a freshly set-up solver, then the iterations;
Bregman (plain and adaptive) ends with the pressure reconstruction, again with a new set-up -/
def WObj.solve (kind : Nat) (w : WObj) (data : Nat) (start n : Nat) : WObj × List (Nat × Nat × Bool) :=
  let I := w.linearSolve (data, 0) false
  let R := WObj.iterations kind I.1 data 0 start n
  if 1 ≤ kind then
    let F := R.1.linearSolve (data, n + 1000) false
    (F.1, I.2 :: R.2 ++ [F.2])
  else (R.1, I.2 :: R.2)

/-! ### the process: default instances and user objects -/

structure World where
  h1Default : Jac
  sbDefault : Jac
  jacs : List Jac
  mgs : List MG
  aas : List AA
  ws : List WObj
  deriving DecidableEq, Repr

inductive SolverRef where
  | default
  | jac (i : Nat)
  | mg (i : Nat)
  deriving DecidableEq, Repr

inductive Op where
  | jacCall (i : Nat) (h : Rat) (data : Nat)
  | jacUpdate (i : Nat) (dim : Option Nat) (mass diff : Option Coef)
  | mgCall (i : Nat) (data : Nat)
  | mgUpdate (i : Nat) (dim : Option Nat) (mass diff : Option Coef)
  | h1 (s : SolverRef) (mu omega : Coef) (dim channels : Nat) (data : Nat)
  | sb (s : SolverRef) (ell omega : Coef) (dim iters : Nat) (data : Nat)
  | anderson (i : Nat) (datas : List Nat)
  | distance (i : Nat) (kind : Nat) (data iters : Nat)
  deriving DecidableEq, Repr

inductive Out where
  | jac (r : JacRun)
  | mg (es : List MGEvent)
  | solves (rs : List (List MGEvent))    -- one entry per solver call of a regulariser
  | aa (rs : List AARun)
  | dist (ss : List (Nat × Nat × Bool))
  | none
  | noObject
  deriving DecidableEq, Repr

/-- the fresh process: default instances as created at import (`da.Jacobi()`), user objects as constructed -/
def World.init (jacs : List Jac) (mgs : List MG) (aas : List AA) (nw : Nat) : World :=
  { h1Default := Jac.new 1 none ⟨2, .unset, .unset⟩, sbDefault := Jac.new 1 none ⟨2, .unset, .unset⟩,
    jacs := jacs, mgs := mgs, aas := aas, ws := List.replicate nw ⟨none⟩ }

/-- `n` solver calls (each at the default `h = 1`) on a Jacobi object -/
def jacCalls (keep : Bool) : Nat → Jac → Jac × List (List MGEvent)
  | 0, j => (j, [])
  | n + 1, j =>
    ((jacCalls keep n (j.call keep 1).1).1, [MGEvent.smooth (j.call keep 1).2] :: (jacCalls keep n (j.call keep 1).1).2)

def mgCalls (restore keep : Bool) : Nat → MG → MG × List (List MGEvent)
  | 0, m => (m, [])
  | n + 1, m =>
    ((mgCalls restore keep n (m.call restore keep).1).1, (m.call restore keep).2 :: (mgCalls restore keep n (m.call restore keep).1).2)

/-- a regulariser: `solver.update_params(mass_coeff, diffusion_coeff, dim)` then `n` solves -/
def regularise (restore keep : Bool) (w : World) (which : Bool) (s : SolverRef) (mass diff : Coef) (dim n : Nat) :
    World × Out :=
  match s with
  | .default =>
    let j := if which then w.h1Default else w.sbDefault
    let (j', rs) := jacCalls keep n (j.update (some dim) (some mass) (some diff))
    (if which then { w with h1Default := j' } else { w with sbDefault := j' }, .solves rs)
  | .jac i =>
    match w.jacs[i]? with
    | none => (w, .noObject)
    | some j =>
      let (j', rs) := jacCalls keep n (j.update (some dim) (some mass) (some diff))
      ({ w with jacs := setAt w.jacs i j' }, .solves rs)
  | .mg i =>
    match w.mgs[i]? with
    | none => (w, .noObject)
    | some m =>
      let (m', rs) := mgCalls restore keep n (m.update (some dim) (some mass) (some diff))
      ({ w with mgs := setAt w.mgs i m' }, .solves rs)

def step (restore keep : Bool) (w : World) : Op → World × Out
  | .jacCall i h _ =>
    match w.jacs[i]? with
    | none => (w, .noObject)
    | some j => let (j', r) := j.call keep h; ({ w with jacs := setAt w.jacs i j' }, .jac r)
  | .jacUpdate i dim mass diff =>
    match w.jacs[i]? with
    | none => (w, .noObject)
    | some j => ({ w with jacs := setAt w.jacs i (j.update dim mass diff) }, .none)
  | .mgCall i _ =>
    match w.mgs[i]? with
    | none => (w, .noObject)
    | some m => let (m', es) := m.call restore keep; ({ w with mgs := setAt w.mgs i m' }, .mg es)
  | .mgUpdate i dim mass diff =>
    match w.mgs[i]? with
    | none => (w, .noObject)
    | some m => ({ w with mgs := setAt w.mgs i (m.update dim mass diff) }, .none)
  | .h1 s mu omega dim channels _ => regularise restore keep w true s omega mu dim channels
  | .sb s ell omega dim iters _ => regularise restore keep w false s omega ell dim iters
  | .anderson i datas =>
    match w.aas[i]? with
    | none => (w, .noObject)
    | some a => let (a', rs) := a.run 0 datas; ({ w with aas := setAt w.aas i a' }, .aa rs)
  | .distance i kind data iters =>
    match w.ws[i]? with
    | none => (w, .noObject)
    | some o => let (o', ss) := o.solve kind data 0 iters; ({ w with ws := setAt w.ws i o' }, .dist ss)

def run (restore keep : Bool) (w : World) : List Op → World
  | [] => w
  | op :: ops => run restore keep (step restore keep w op).1 ops

def outs (restore keep : Bool) : World → List Op → List Out
  | _, [] => []
  | w, op :: ops => (step restore keep w op).2 :: outs restore keep (step restore keep w op).1 ops

/-- the parameter-setting part of an operation: what it "sets for" later calls on a user's solver object
(`update_params`, also when issued by a regulariser on the solver handed to it) -/
def Op.settingPart : Op → List Op
  | .jacUpdate i d m f => [.jacUpdate i d m f]
  | .mgUpdate i d m f => [.mgUpdate i d m f]
  | .h1 (.jac i) mu omega dim _ _ => [.jacUpdate i (some dim) (some omega) (some mu)]
  | .h1 (.mg i) mu omega dim _ _ => [.mgUpdate i (some dim) (some omega) (some mu)]
  | .sb (.jac i) ell omega dim _ _ => [.jacUpdate i (some dim) (some omega) (some ell)]
  | .sb (.mg i) ell omega dim _ _ => [.mgUpdate i (some dim) (some omega) (some ell)]
  | _ => []

/-- operations that use no user solver object: regularisers with the library's default solver instance,
Anderson-accelerated runs, distance computations -/
def Op.selfContained : Op → Bool
  | .h1 .default .. => true
  | .sb .default .. => true
  | .anderson .. => true
  | .distance .. => true
  | _ => false

/-- the parameter-setting operations of a history (what a caller has "set for" later calls) -/
def Op.isSetting : Op → Bool
  | .jacUpdate .. => true
  | .mgUpdate .. => true
  | _ => false

end Darsia.Stateful
