/-
C10 (round 2) — concrete corrections whose array function is DarSIA's own index logic, as executable models:

* `typeCorr`        TypeCorrection.correct_array (skimage `img_as_*` between uint8 / uint16 / float64, as a tagged map;
                    note the data-dependent branch of skimage: uint16 → uint8 is NOT scaled when the maximum fits)
* `transCorrInt`    TranslationCorrection.correct_array for whole-pixel translations [[1,0,tx],[0,1,ty]] (cv2.warpAffine
                    is exact there: zero-filled shift by (ty, tx)); inactive ⇒ the array itself
* `rotCorr2/3`      RotationCorrection.correct_array: src = clip(astype(int)(anchor + R_inv·(v − anchor)), 0, n−1), result float64
* `driftInactive`   DriftCorrection.correct_array with active = False
* `transfCorr`      TransformationCorrection.correct_array (the pull-back warp of DarsiaModel.Warp) and its per-object cache
                    as explicit state (`transfStep`)

Arrays are total functions on ℤ² (ℤ³) with a shape; only the values inside the box are observable (`Arr2.agree`).
-/
import DarsiaModel.Warp
import DarsiaModel.Correction
namespace Darsia.Corrections
open Darsia.Affine Darsia.Warp

structure Arr2 (β : Type) where
  n0 : Nat
  n1 : Nat
  get : Int → Int → β

structure Arr3 (β : Type) where
  n0 : Nat
  n1 : Nat
  n2 : Nat
  get : Int → Int → Int → β

/-- observational equality: same shape, same values inside the box -/
def Arr2.agree {β} (a b : Arr2 β) : Prop :=
  a.n0 = b.n0 ∧ a.n1 = b.n1 ∧ ∀ i j : Int, 0 ≤ i → i < a.n0 → 0 ≤ j → j < a.n1 → a.get i j = b.get i j

def Arr3.agree {β} (a b : Arr3 β) : Prop :=
  a.n0 = b.n0 ∧ a.n1 = b.n1 ∧ a.n2 = b.n2 ∧
    ∀ i j k : Int, 0 ≤ i → i < a.n0 → 0 ≤ j → j < a.n1 → 0 ≤ k → k < a.n2 → a.get i j k = b.get i j k

inductive DT | u8 | u16 | f64
  deriving DecidableEq, Repr

/-- array with its numpy dtype -/
structure TArr where
  dt : DT
  arr : Arr2 Rat

def TArr.agree (a b : TArr) : Prop := a.dt = b.dt ∧ a.arr.agree b.arr

structure TArr3 where
  dt : DT
  arr : Arr3 Rat

def TArr3.agree (a b : TArr3) : Prop := a.dt = b.dt ∧ a.arr.agree b.arr

/-! ### TypeCorrection -/

/-- `np.rint`: round half to even -/
def rintRat (q : Rat) : Int :=
  let f := q.floor
  let r := q - (f : Rat)
  if r < half then f else if half < r then f + 1 else (if f % 2 = 0 then f else f + 1)

def clipInt (x lo hi : Int) : Int := min (max x lo) hi

def DT.imax : DT → Int | .u8 => 255 | .u16 => 65535 | .f64 => 1

/-- maximum of the values inside the box (0 for an empty box) -/
def Arr2.maxVal (a : Arr2 Rat) : Rat :=
  (List.range a.n0).foldl (fun m (i : Nat) => (List.range a.n1).foldl (fun m (j : Nat) => max m (a.get (i : Int) (j : Int))) m) 0

/-- elementwise rule, given whether skimage takes its "fits without scaling" branch for this array -/
def convVal (src dst : DT) (fits : Bool) (x : Rat) : Rat :=
  match src, dst with
  | .u8, .u8 | .u16, .u16 | .f64, .f64 => x
  | .u8, .f64 => x / 255
  | .u16, .f64 => x / 65535
  | .u8, .u16 => x * 257
  | .u16, .u8 => if fits then x else ((x.floor / 256 : Int) : Rat)
  | .f64, .u8 => (clipInt (rintRat (x * 255)) 0 255 : Int)
  | .f64, .u16 => (clipInt (rintRat (x * 65535)) 0 65535 : Int)

/-- skimage raises ValueError for floats outside [-1, 1] when converting to an integer type -/
def convOk (src dst : DT) (x : Rat) : Bool :=
  match src, dst with
  | .f64, .u8 | .f64, .u16 => decide (-1 ≤ x) && decide (x ≤ 1)
  | _, _ => true

def typeCorr (target : DT) (a : TArr) : TArr :=
  let fits := decide (a.arr.maxVal < 256)
  ⟨target, ⟨a.arr.n0, a.arr.n1, fun i j => convVal a.dt target fits (a.arr.get i j)⟩⟩

/-- every value inside the box satisfies `p` -/
def Arr2.allIn (a : Arr2 Rat) (p : Rat → Bool) : Bool :=
  (List.range a.n0).all fun (i : Nat) => (List.range a.n1).all fun (j : Nat) => p (a.get (i : Int) (j : Int))

/-- `TypeCorrection.correct_array` with the raising path: skimage raises ValueError for float images outside [-1, 1]
that are converted to an integer type -/
def typeCorrE (target : DT) (a : TArr) : Except Err TArr :=
  if a.arr.allIn (convOk a.dt target) then .ok (typeCorr target a) else .error .value

/-! ### TranslationCorrection (whole pixels), DriftCorrection (inactive) -/

def transCorrInt (active : Bool) (tx ty : Int) (a : TArr) : TArr :=
  if active then ⟨a.dt, ⟨a.arr.n0, a.arr.n1, shift2 0 a.arr.n0 a.arr.n1 ty tx a.arr.get⟩⟩ else a

def driftInactive (a : TArr) : TArr := a

/-! ### RotationCorrection -/

def rotSrc2 (anchor : V2 Rat) (Rinv : M2 Rat) (n0 n1 : Nat) (i j : Int) : Int × Int :=
  let s := V2.add anchor (Rinv.mulVec (V2.sub ⟨(i : Rat), (j : Rat)⟩ anchor))
  (clipInt (truncRat s.x) 0 ((n0 : Int) - 1), clipInt (truncRat s.y) 0 ((n1 : Int) - 1))

def rotCorr2 (anchor : V2 Rat) (Rinv : M2 Rat) (a : TArr) : TArr :=
  ⟨.f64, ⟨a.arr.n0, a.arr.n1, fun i j =>
    let p := rotSrc2 anchor Rinv a.arr.n0 a.arr.n1 i j
    a.arr.get p.1 p.2⟩⟩

def rotSrc3 (anchor : V3 Rat) (Rinv : M3 Rat) (n0 n1 n2 : Nat) (i j k : Int) : Int × Int × Int :=
  let s := V3.add anchor (Rinv.mulVec (V3.sub ⟨(i : Rat), (j : Rat), (k : Rat)⟩ anchor))
  (clipInt (truncRat s.x) 0 ((n0 : Int) - 1), clipInt (truncRat s.y) 0 ((n1 : Int) - 1),
   clipInt (truncRat s.z) 0 ((n2 : Int) - 1))

def rotCorr3 (anchor : V3 Rat) (Rinv : M3 Rat) (a : TArr3) : TArr3 :=
  ⟨.f64, ⟨a.arr.n0, a.arr.n1, a.arr.n2, fun i j k =>
    let p := rotSrc3 anchor Rinv a.arr.n0 a.arr.n1 a.arr.n2 i j k
    a.arr.get p.1 p.2.1 p.2.2⟩⟩

/-- specification: `np.rot90(arr, 1, axes)` in the three coordinate planes of a cube-shaped array -/
def rot90_3 {β} (axis : Ax3) (n : Nat) (arr : Int → Int → Int → β) (i j k : Int) : β :=
  match axis with
  | .a0 => arr i k ((n : Int) - 1 - j)     -- turn in the (1,2) plane
  | .a1 => arr ((n : Int) - 1 - k) j i     -- turn in the (2,0) plane
  | .a2 => arr j ((n : Int) - 1 - i) k     -- turn in the (0,1) plane

/-! ### TransformationCorrection with its cache -/

def transfCorr (mode : Mode) (T : Affine2 Rat) (csS csD : CS2) (rnd : Rounding) (a : TArr) : TArr :=
  ⟨a.dt, ⟨csD.n0, csD.n1, warp2 0 mode T csS csD rnd a.arr.get⟩⟩

/-- the real code indexes the array it is handed with source voxels that are valid for the SOURCE SYSTEM's shape: an array
smaller than that shape raises IndexError as soon as such a voxel is needed (a larger array is read inside the system's box) -/
def transfCorrE (mode : Mode) (T : Affine2 Rat) (csS csD : CS2) (rnd : Rounding) (a : TArr) : Except Err TArr :=
  let bad := (List.range csD.n0).any fun (v0 : Nat) => (List.range csD.n1).any fun (v1 : Nat) =>
    let p := src2 mode T csS csD rnd v0 v1
    csS.valid p && (decide ((a.arr.n0 : Int) ≤ p.1) || decide ((a.arr.n1 : Int) ≤ p.2))
  if bad then .error .index else .ok (transfCorr mode T csS csD rnd a)

/-- the per-object cache: source voxel and validity for every destination voxel, computed on first use -/
abbrev Cache := Int → Int → (Int × Int) × Bool

def mkCache (mode : Mode) (T : Affine2 Rat) (csS csD : CS2) (rnd : Rounding) : Cache :=
  fun v0 v1 => let p := src2 mode T csS csD rnd v0 v1; (p, csS.valid p)

/-- one call of `correct_array` on an object whose cache state is `st` -/
def transfStep (mode : Mode) (T : Affine2 Rat) (csS csD : CS2) (rnd : Rounding)
    (st : Option Cache) (a : TArr) : Option Cache × TArr :=
  let c := match st with | some c => c | none => mkCache mode T csS csD rnd
  (some c, ⟨a.dt, ⟨csD.n0, csD.n1, fun v0 v1 => let e := c v0 v1; if e.2 then a.arr.get e.1.1 e.1.2 else 0⟩⟩)

/-- a history of calls on one object; returns the output of the last call -/
def transfRun (mode : Mode) (T : Affine2 Rat) (csS csD : CS2) (rnd : Rounding) :
    Option Cache → List TArr → TArr → TArr
  | st, [], a => (transfStep mode T csS csD rnd st a).2
  | st, h :: hs, a => transfRun mode T csS csD rnd (transfStep mode T csS csD rnd st h).1 hs a

/-! ### the warp cache keyed by the state of the transformation (code after the round-5 fix)

The transformation carries a version counter that every parameter update increases; the correction stores the version its
cache was computed for and recomputes on mismatch. Operations on one correction object: apply it to an array, or change the
parameters of its transformation. -/

inductive TOp
  | apply (a : TArr)
  | setParams (T : Affine2 Rat)

structure TState where
  ver : Nat                              -- transformation.parameter_version
  T : Affine2 Rat                        -- current parameters
  cache : Option (Nat × Cache)           -- (version the cache was computed for, cache)

def tstep (mode : Mode) (csS csD : CS2) (rnd : Rounding) (st : TState) : TOp → TState × Option TArr
  | .setParams T' => ({ st with ver := st.ver + 1, T := T' }, none)
  | .apply a =>
    let c := match st.cache with
      | some (v, c) => if v = st.ver then c else mkCache mode st.T csS csD rnd
      | none => mkCache mode st.T csS csD rnd
    ({ st with cache := some (st.ver, c) },
     some ⟨a.dt, ⟨csD.n0, csD.n1, fun v0 v1 => let e := c v0 v1; if e.2 then a.arr.get e.1.1 e.1.2 else 0⟩⟩)

/-- the tree before the fix: the cache is never invalidated -/
def tstepOld (mode : Mode) (csS csD : CS2) (rnd : Rounding) (st : TState) : TOp → TState × Option TArr
  | .setParams T' => ({ st with ver := st.ver + 1, T := T' }, none)
  | .apply a =>
    let c := match st.cache with
      | some (_, c) => c
      | none => mkCache mode st.T csS csD rnd
    ({ st with cache := some (st.ver, c) },
     some ⟨a.dt, ⟨csD.n0, csD.n1, fun v0 v1 => let e := c v0 v1; if e.2 then a.arr.get e.1.1 e.1.2 else 0⟩⟩)

def trun (step : TState → TOp → TState × Option TArr) (st : TState) : List TOp → TState
  | [] => st
  | op :: ops => trun step (step st op).1 ops

/-! ### the shared workflow instantiated with a concrete array function -/

open Darsia.Correction in
/-- a correction without whole-series routine and without declared metadata update -/
def plainCorr {Meta : Type} (f : TArr → TArr) : Corr TArr Meta :=
  { f := f, fSeries := none, g := fun m => m, upd := fun m _ => m }

end Darsia.Corrections
