/-
Shared vocabulary of the DarSIA models: error classes, exact rationals, the
line-protocol token parser used by `Driver.lean`, Fortran-order multi-indices.
Core Lean only (no Mathlib) so that the driver starts in half a second.
-/
namespace Darsia

/-- Error classes of the Python implementation (compared by class, never by message). -/
inductive Err
  | assertion | value | index | type | notImpl | key | unbound | other
  deriving DecidableEq, Repr, Inhabited

def Err.show : Err → String
  | .assertion => "!AssertionError"
  | .value => "!ValueError"
  | .index => "!IndexError"
  | .type => "!TypeError"
  | .notImpl => "!NotImplementedError"
  | .key => "!KeyError"
  | .unbound => "!UnboundLocalError"
  | .other => "!Other"

deriving instance DecidableEq for Except

/-- A rational printed the way the Python side prints `fractions.Fraction`. -/
def showRat (r : Rat) : String :=
  if r.den = 1 then toString r.num else toString r.num ++ "/" ++ toString r.den

def showRats (rs : List Rat) : String := " ".intercalate (rs.map showRat)
def showInts (rs : List Int) : String := " ".intercalate (rs.map toString)
def showNats (rs : List Nat) : String := " ".intercalate (rs.map toString)
def showBool (b : Bool) : String := if b then "1" else "0"

def parseRat (s : String) : Option Rat :=
  match s.splitOn "/" with
  | [a] => a.toInt?.map (fun n => (n : Rat))
  | [a, b] =>
    match a.toInt?, b.toNat? with
    | some n, some d => if d = 0 then none else some (mkRat n d)
    | _, _ => none
  | _ => none

/-- Token-stream parser for protocol lines. -/
abbrev P := StateT (List String) Option

namespace P
def tok : P String := fun s => match s with | [] => none | t :: ts => some (t, ts)
def nat : P Nat := do let t ← tok; match t.toNat? with | some n => pure n | none => failure
def int : P Int := do let t ← tok; match t.toInt? with | some n => pure n | none => failure
def rat : P Rat := do let t ← tok; match parseRat t with | some n => pure n | none => failure
def bool : P Bool := do let n ← nat; pure (n != 0)
def rep {α} (p : P α) : Nat → P (List α)
  | 0 => pure []
  | n + 1 => do let a ← p; let as ← rep p n; pure (a :: as)
/-- length-prefixed list `n v1 .. vn` -/
def list {α} (p : P α) : P (List α) := do let n ← nat; rep p n
def opt {α} (p : P α) : P (Option α) := do
  let t ← tok
  if t = "none" then pure none else
    fun s => (p.run (t :: s)).map (fun (a, s') => (some a, s'))
def done : P Unit := fun s => match s with | [] => some ((), []) | _ => none
end P

def tokens (line : String) : List String :=
  (line.splitOn " ").filter (fun t => t ≠ "")

/-! ### Fortran-order (first index fastest) mixed-radix numbering -/

/-- flat index of a multi-index in Fortran order -/
def encF : List Nat → List Nat → Nat
  | n :: ns, i :: is => i + n * encF ns is
  | _, _ => 0

/-- multi-index of a flat index in Fortran order -/
def decF : List Nat → Nat → List Nat
  | [], _ => []
  | n :: ns, k => (k % n) :: decF ns (k / n)

def prodL : List Nat → Nat
  | [] => 1
  | n :: ns => n * prodL ns

/-- all multi-indices of a box, in Fortran order -/
def boxF (shape : List Nat) : List (List Nat) :=
  (List.range (prodL shape)).map (decF shape)

/-- `inBox shape idx` : the multi-index lies inside the box -/
def inBox : List Nat → List Nat → Bool
  | [], [] => true
  | n :: ns, i :: is => decide (i < n) && inBox ns is
  | _, _ => false

/-- the driver loop shared by every `Drivers/Cnn.lean`: one request line in, one `> response` out -/
partial def driverLoop (dispatch : List String → Option String) (h : IO.FS.Stream) : IO Unit := do
  let line ← h.getLine
  if line.isEmpty then return ()
  IO.println ("> " ++ (dispatch (tokens line.trimAscii.toString)).getD "!bad-request")
  driverLoop dispatch h

def runDriver (dispatch : List String → Option String) : IO Unit := do
  driverLoop dispatch (← IO.getStdin)

def listGetD {α} (l : List α) (i : Nat) (d : α) : α := (l[i]?).getD d

def setAt {α} : List α → Nat → α → List α
  | [], _, _ => []
  | _ :: xs, 0, a => a :: xs
  | x :: xs, n + 1, a => x :: setAt xs n a

end Darsia
