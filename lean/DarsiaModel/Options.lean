/-
Option resolution of the linear-solver set-up (`setup_amg_options`, `setup_amg_solver`, `setup_cg_solver`; C08):
the resolved options are `defaults ⊕ user` (`dict.update`), and the defaults are either a dictionary literal built
afresh in every call (`fresh`) or a module-level dictionary bound by reference (`shared`: `update` then mutates it, and
every later object in the process starts from the mutated defaults). Which of the two the code has is extracted from the
AST (`DarsiaGen.OptionsGen`). Core Lean only.
-/
import DarsiaModel.Basic
namespace Darsia.Options

variable {κ ν : Type} [DecidableEq κ]

abbrev Opts (κ ν : Type) := List (κ × ν)

/-- `dict.update`: entries of `u` override / extend those of `d` (order of keys is immaterial for look-ups) -/
def update (d u : Opts κ ν) : Opts κ ν := (d.filter fun e => !(u.map (·.1)).contains e.1) ++ u

def lookup (d : Opts κ ν) (k : κ) : Option ν := (d.find? fun e => e.1 == k).map (·.2)

inductive Binding | fresh | shared
  deriving DecidableEq, Repr

/-- process-level state: the module-level defaults as they are now -/
structure World (κ ν : Type) where
  defaults : Opts κ ν

/-- one object resolving its options: result and the world afterwards -/
def resolve (b : Binding) (w : World κ ν) (user : Opts κ ν) : Opts κ ν × World κ ν :=
  let r := update w.defaults user
  match b with
  | .fresh => (r, w)
  | .shared => (r, { defaults := r })

/-- a history of objects (their user options), then one more object -/
def resolveAfter (b : Binding) (w : World κ ν) : List (Opts κ ν) → Opts κ ν → Opts κ ν
  | [], user => (resolve b w user).1
  | h :: hs, user => resolveAfter b (resolve b w h).2 hs user

end Darsia.Options
