/-
Arithmetic of `darsia.Jacobi` and of the `darsia.MG` V-cycle over ℚ (C16, round 2), evaluated from the RECORD a
call returns in `DarsiaModel.Stateful` (which parameters, which grid spacing, which coefficient version).
Everything a solve computes is a function of that record and of the array arguments:
  * `evalJac`    — `Jacobi.__call__` without tolerance: `const_diag = mass + diff·2·dim/h²`,
                   `const_diag_scaled = const_diag / (diff/h²)`, `rhs/const_diag`, `maxiter` sweeps
                   `x ← rhs_scaled + neighbours(x)/const_diag_scaled` (ghost copies at the boundary, over ALL array axes);
  * `evalEvents` — `MG.__call__`: per V-cycle pre-smoothing, residual `rhs − (mass·x − diff·laplace(x))` with
                   `darsia.laplace` as coded (`0.5·(bd∘fd + fd∘bd)`), restriction (pair means, last odd entry dropped),
                   coarse solve / recursion, prolongation (`np.repeat`), edge padding, post-smoothing;
  * `evalH1`     — `H1_regularization`: `solver(x0 = img, rhs = omega·img)` per channel.
Arrays are materialised (`Array Rat`, C order) so the model runs in linear time. 1-D … n-D.
-/
import DarsiaModel.Stateful
namespace Darsia.Stateful

structure Arr where
  shape : List Nat
  data : Array Rat
  deriving DecidableEq, Repr

def encC : List Nat → List Nat → Nat
  | _ :: ns, i :: is => i * prodL ns + encC ns is
  | _, _ => 0

def boxC : List Nat → List (List Nat)
  | [] => [[]]
  | n :: ns => (List.range n).flatMap fun i => (boxC ns).map fun is => i :: is

def Arr.get (a : Arr) (idx : List Nat) : Rat := a.data.getD (encC a.shape idx) 0

def Arr.tab (shape : List Nat) (f : List Nat → Rat) : Arr := ⟨shape, ((boxC shape).map f).toArray⟩

def Arr.zeros (shape : List Nat) : Arr := Arr.tab shape fun _ => 0

def Arr.map2 (g : Rat → Rat → Rat) (a b : Arr) : Arr := Arr.tab a.shape fun idx => g (a.get idx) (b.get idx)

def Arr.map (g : Rat → Rat) (a : Arr) : Arr := ⟨a.shape, a.data.map g⟩

/-- a coefficient value: a number or an array -/
inductive CoefV where
  | scalar (v : Rat)
  | arr (a : Arr)

def CoefV.at : CoefV → List Nat → Rat
  | .scalar v, _ => v
  | .arr a, idx => a.get idx

def modifyAt (idx : List Nat) (a : Nat) (g : Nat → Nat) : List Nat := idx.mapIdx fun k v => if k = a then g v else v

/-- `forward_diff`: `(x[i] − x[i−1])/h`, 0 in the first entry -/
def fdiff (a : Nat) (h : Rat) (x : Arr) : Arr :=
  Arr.tab x.shape fun idx => if listGetD idx a 0 = 0 then 0 else (x.get idx - x.get (modifyAt idx a (· - 1))) / h

/-- `backward_diff`: `(x[i+1] − x[i])/h`, 0 in the last entry -/
def bdiff (a : Nat) (h : Rat) (x : Arr) : Arr :=
  Arr.tab x.shape fun idx =>
    if listGetD idx a 0 + 1 < listGetD x.shape a 0 then (x.get (modifyAt idx a (· + 1)) - x.get idx) / h else 0

/-- `darsia.laplace(x, dim, h)` with unit diffusion coefficient -/
def laplaceA (dim : Nat) (h : Rat) (x : Arr) : Arr :=
  (List.range dim).foldl (fun acc a =>
    Arr.map2 (· + ·) acc (Arr.map (· / 2) (Arr.map2 (· + ·) (bdiff a h (fdiff a h x)) (fdiff a h (bdiff a h x))))) (Arr.zeros x.shape)

/-- `Jacobi._neighbor_accumulation`: both neighbours along every array axis, ghost copies outside -/
def neighbours (x : Arr) : Arr :=
  Arr.tab x.shape fun idx =>
    (List.range x.shape.length).foldl (fun s a =>
      let i := listGetD idx a 0
      let n := listGetD x.shape a 0
      s + (if i = 0 then x.get idx else x.get (modifyAt idx a (· - 1)))
        + (if i + 1 < n then x.get (modifyAt idx a (· + 1)) else x.get idx)) 0

/-- `MG.restriction`: along the first `dim` axes, means of pairs (a last odd entry is dropped) -/
def restrictA (dim : Nat) (x : Arr) : Arr :=
  (List.range dim).foldl (fun (y : Arr) a =>
    let shape := y.shape.mapIdx fun k n => if k = a then n / 2 else n
    Arr.tab shape fun idx => (y.get (modifyAt idx a (2 * ·)) + y.get (modifyAt idx a (2 * · + 1))) / 2) x

/-- `MG.prolongation` followed by the edge padding to the fine shape -/
def prolongPad (dim : Nat) (target : List Nat) (e : Arr) : Arr :=
  Arr.tab target fun idx =>
    e.get (idx.mapIdx fun k v => if k < dim then min (v / 2) (listGetD e.shape k 1 - 1) else v)

/-- coefficient of a record: scalar, or the environment's array restricted once per `true` of the word
(prolongated versions occur only in the code before the fix and are not evaluated) -/
def evalCoef (env : Nat → Option Arr) (dim : Nat) : Coef → Option CoefV
  | .unset => none
  | .scalar v => some (.scalar v)
  | .array id w => do
    let a ← env id
    if w.all (· == true) then some (.arr (w.foldl (fun y _ => restrictA dim y) a)) else none

/-- `Jacobi.__call__(x0, rhs, h)` computed from its record -/
def normSq (a : Arr) : Rat := a.data.foldl (fun s v => s + v * v) 0

/-- the tolerance loop of `Jacobi.__call__`: `x_new = sweep(x)`; `err = ‖x_new − x‖ / ‖x0‖`; stop (returning `x`, not
`x_new`) when `err < tol`; compared through squares (`‖x_new − x‖² < tol²·‖x0‖²`); for `x0 = 0` numpy's `nan`/`inf`
never satisfies the test -/
def tolLoop (sweep : Arr → Arr) (tol : Rat) (x0 : Arr) : Nat → Arr → Arr
  | 0, x => x
  | n + 1, x =>
    let xn := sweep x
    if normSq x0 ≠ 0 ∧ 0 ≤ tol ∧ normSq (Arr.map2 (· - ·) xn x) < tol * tol * normSq x0 then x
    else tolLoop sweep tol x0 n xn

def evalJac (env : Nat → Option Arr) (r : JacRun) (x0 rhs : Arr) : Option Arr := do
  let mass ← evalCoef env r.diag.p.dim r.diag.p.mass
  let diff ← evalCoef env r.diag.p.dim r.diag.p.diff
  let h2 := r.diag.h * r.diag.h
  let diag := Arr.tab rhs.shape fun idx => mass.at idx + diff.at idx * 2 * (r.diag.p.dim : Rat) / h2
  let scaled := Arr.tab rhs.shape fun idx => diag.get idx / (diff.at idx / h2)
  let rhsS := Arr.map2 (· / ·) rhs diag
  let sweep (x : Arr) : Arr := Arr.map2 (· + ·) rhsS (Arr.map2 (· / ·) (neighbours x) scaled)
  match r.tol with
  | none => some ((List.range r.maxiter).foldl (fun x _ => sweep x) x0)
  | some tol => some (tolLoop sweep tol x0 r.maxiter x0)

/-- `MG.operator(x, h)` = `mass·x − diff·laplace(x, dim, h)` -/
def operatorA (env : Nat → Option Arr) (p : Params) (h : Rat) (x : Arr) : Option Arr := do
  let mass ← evalCoef env p.dim p.mass
  let diff ← evalCoef env p.dim p.diff
  let lap := laplaceA p.dim h x
  some (Arr.tab x.shape fun idx => mass.at idx * x.get idx - diff.at idx * lap.get idx)

/-- one V-cycle replayed from its events; returns the result and the unconsumed events -/
def evalV (env : Nat → Option Arr) : Nat → List MGEvent → Arr → Arr → Option (Arr × List MGEvent)
  | fuel + 1, .smooth r1 :: .operator p h :: rest, x0, rhs => do
    let x ← evalJac env r1 x0 rhs
    let ax ← operatorA env p h x
    let rc := restrictA p.dim (Arr.map2 (· - ·) rhs ax)
    let (eps, rest') ← match rest with
      | .smooth _ :: .operator _ _ :: _ => evalV env fuel rest (Arr.zeros rc.shape) rc
      | .smooth rc0 :: rest' => (evalJac env rc0 (Arr.zeros rc.shape) rc).map fun e => (e, rest')
      | _ => none
    let x2 := Arr.map2 (· + ·) x (prolongPad p.dim x.shape eps)
    match rest' with
    | .smooth r2 :: rest'' => (evalJac env r2 x2 rhs).map fun y => (y, rest'')
    | _ => none
  | _, _, _, _ => none

/-- a whole solver call (Jacobi: one record; MG: V-cycles until the events are used up) -/
def evalEvents (env : Nat → Option Arr) : Nat → List MGEvent → Arr → Arr → Option Arr
  | _, [], x, _ => some x
  | _, [.smooth r], x, rhs => evalJac env r x rhs
  | fuel + 1, es, x, rhs => do
    let (y, rest) ← evalV env (fuel + 1) es x rhs
    evalEvents env fuel rest y rhs
  | 0, _, _, _ => none

/-- channel `c` of an image whose first `dim` axes are spatial (trailing axes flattened in C order) -/
def channel (dim : Nat) (img : Arr) (c : Nat) : Arr :=
  let sp := img.shape.take dim
  let nc := prodL (img.shape.drop dim)
  ⟨sp, ((boxC sp).map fun idx => img.data.getD (encC sp idx * nc + c) 0).toArray⟩

/-- `H1_regularization(img, mu, omega, dim, solver)`: one solve per channel with `x0 = img`, `rhs = omega·img` -/
def evalH1 (env : Nat → Option Arr) (dim : Nat) (omega : Coef) (solves : List (List MGEvent)) (img : Arr) : Option (List Arr) := do
  let om ← evalCoef env dim omega
  (solves.zipIdx).mapM fun (es, c) =>
    let x := channel dim img c
    evalEvents env (es.length + 1) es x (Arr.tab x.shape fun idx => om.at idx * x.get idx)

/-- `_shrink(x, k) = max(|x| − k, 0) · sign(x)` -/
def shrinkR (x k : Rat) : Rat :=
  let a := if x < 0 then -x else x
  let m := if a - k < 0 then 0 else a - k
  if x < 0 then -m else if x = 0 then 0 else m

/-- `split_bregman_tvd` (anisotropic, no tolerance, no adaptivity) replayed from its record: per Bregman iteration
`rhs = omega·img + Σ_i forward_diff(ell·(b_i − d_i), i)`, one solver call `x0 = img_iter`, then per axis
`dub = backward_diff(img_new, j) + b_j; d_j = shrink(dub, mu/ell); b_j = dub − d_j` -/
def evalSB (env : Nat → Option Arr) (dim : Nat) (mu : Coef) (ell omega : Coef) (solves : List (List MGEvent)) (img : Arr) :
    Option Arr := do
  let om ← evalCoef env dim omega
  let el ← evalCoef env dim ell
  let m ← evalCoef env dim mu
  let zero := Arr.zeros img.shape
  let init : Arr × List Arr × List Arr := (img, List.replicate dim zero, List.replicate dim zero)
  let fin ← solves.foldlM (fun (st : Arr × List Arr × List Arr) es => do
    let (it, ds, bs) := st
    let base := Arr.tab img.shape fun idx => om.at idx * img.get idx
    let rhs := (List.range dim).foldl (fun acc i =>
      let diff := Arr.tab img.shape fun idx => el.at idx * ((bs.getD i zero).get idx - (ds.getD i zero).get idx)
      Arr.map2 (· + ·) acc (fdiff i 1 diff)) base
    let xn ← evalEvents env (es.length + 1) es it rhs
    let dubs := (List.range dim).map fun j => Arr.map2 (· + ·) (bdiff j 1 xn) (bs.getD j zero)
    let ds' := dubs.map fun dub => Arr.tab img.shape fun idx => shrinkR (dub.get idx) (m.at idx / el.at idx)
    let bs' := (dubs.zip ds').map fun (dub, dn) => Arr.map2 (· - ·) dub dn
    pure (xn, ds', bs')) init
  pure fin.1

/-- the numerical result of an operation, from its record and its array arguments (`x0`, `rhs` for the solvers;
the image for a regulariser) -/
def evalOut (env : Nat → Option Arr) (op : Op) (x0 rhs : Arr) : Out → Option (List Arr)
  | .jac r => (evalJac env r x0 rhs).map fun a => [a]
  | .mg es => (evalEvents env (es.length + 1) es x0 rhs).map fun a => [a]
  | .solves rs =>
    match op with
    | .h1 _ _ omega dim _ _ => evalH1 env dim omega rs x0
    | _ => none
  | _ => none

end Darsia.Stateful
