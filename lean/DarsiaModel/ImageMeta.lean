/-
Images with metadata and symbolic data (C02). Mirrors `Image.subregion`, `time_slice`,
`time_interval`, `append`, `set_time` (`darsia/image/image.py`) and `stack`
(`darsia/image/arithmetics.py`).

Data are tracked symbolically: an image holds a list of time slabs; each slab names the root array
and root time index it was taken from and, per matrix axis, the list of root indices it holds
(numpy basic slicing = `drop`/`take` on those lists). "Contains exactly the corresponding block of
the parent's data" is then an equality of index lists, for any payload (scalar / vector).
Dates are microseconds (`Int`), relative times seconds (`Rat`). Core Lean only.
-/
import DarsiaModel.Coord
import DarsiaModel.Patches
namespace Darsia.Im
open Darsia

/-- one time slab of data: root array id, time index in the root, root indices per matrix axis -/
structure Slab where
  rid : Nat
  t : Nat
  idx : List (List Nat)
  deriving Repr, DecidableEq

structure Img where
  cs : CS
  series : Bool
  scalar : Bool
  slabs : List Slab
  /-- relative time per slab (`Image.time`; a single-time image has one entry) -/
  time : List (Option Rat)
  /-- absolute date per slab in seconds (`Image.date`) -/
  date : List (Option Int)
  /-- `Image.reference_date` -/
  ref : Option Int
  deriving Repr, DecidableEq

/-- `np.absolute` -/
def absR (x : Rat) : Rat := if 0 ≤ x then x else -x

abbrev PySlice := Option Int × Option Int

/-- `slice(start, stop).indices(N)[:2]` (step None) -/
def sliceIdx (N : Nat) (s : PySlice) : Nat × Nat :=
  let norm (x : Int) : Nat := if x < 0 then (x + N).toNat else min x.toNat N
  ((s.1.map norm).getD 0, (s.2.map norm).getD N)

/-- `Image._is_none` on a list -/
def anyNone {α} (l : List (Option α)) : Bool := l.any Option.isNone

/-- `(date − reference).total_seconds()`: dates are `datetime`s, modelled by their integer number of MICROSECONDS (Python's
resolution); the relative time is the whole signed difference — days, seconds and microseconds — in seconds -/
def secondsBetween (x r : Int) : Rat := ((x - r : Int) : Rat) / 1000000

/-- `Image.set_time(None)`: relative times from the dates -/
def timesFromDates (date : List (Option Int)) (ref : Option Int) : Except Err (List (Option Rat)) :=
  if anyNone date then .ok (date.map fun _ => none)
  else match ref with
    | none => .error .type
    | some r => .ok (date.map fun d => d.map fun x => secondsBetween x r)

/-- a freshly constructed image on root array `rid` (`Image.__init__`): `T` time slabs; `refArg` is the
`reference_date` keyword (`none`: not given → the first date) -/
def mkRootR (rid : Nat) (cs : CS) (series scalar : Bool) (T : Nat) (time : Option (List (Option Rat)))
    (date : List (Option Int)) (refArg : Option (Option Int)) : Except Err Img := do
  let ref := match refArg with
    | some r => r
    | none => date.headD none
  let tm ← match time with
    | some l => pure l
    | none => timesFromDates date ref
  pure ⟨cs, series, scalar, (List.range T).map fun t => ⟨rid, t, cs.shape.map List.range⟩, tm, date, ref⟩

def mkRoot (rid : Nat) (cs : CS) (series scalar : Bool) (T : Nat) (time : Option (List (Option Rat)))
    (date : List (Option Int)) : Except Err Img := mkRootR rid cs series scalar T time date none

/-- `Image.subregion(tuple of slices)` -/
def Img.subSlices (im : Img) (sls : List PySlice) : Except Err Img := do
  if sls.length ≠ im.cs.dim.toNat then throw .assertion
  let ns := List.zipWith sliceIdx im.cs.shape sls
  let o ← im.cs.coordinate (ns.map fun s => ((s.1 : Nat) : Rat))
  let opp ← im.cs.coordinate (ns.map fun s => ((s.2 : Nat) : Rat))
  let cart := List.zipWith (fun a b => absR (a - b)) opp o
  let mm ← matMap im.cs.dim
  let dims := mm.map fun q => listGetD cart q.1 0
  let slabs := im.slabs.map fun sl => { sl with idx := List.zipWith Patch.sliceL sl.idx ns }
  pure { im with cs := ⟨im.cs.dim, ns.map fun s => s.2 - s.1, dims, o⟩, slabs := slabs }

def colMin (pts : List (List Int)) (d : Nat) : Option Int := (pts.map fun p => listGetD p d 0).min?
def colMax (pts : List (List Int)) (d : Nat) : Option Int := (pts.map fun p => listGetD p d 0).max?

/-- `slice(max(0, min(voxels[:, d])), max(0, min(max(voxels[:, d]), num_voxels[d])))` per axis;
`np.min` of an empty column raises ValueError -/
def boxSlices (shape : List Nat) (pts : List (List Int)) : Except Err (List PySlice) :=
  shape.zipIdx.mapM fun (N, d) =>
    match colMin pts d, colMax pts d with
    | some lo, some hi => .ok (some (max 0 lo), some (max 0 (min hi (N : Int))))
    | _, _ => .error .value

/-- `Image.subregion(VoxelArray)` -/
def Img.subVoxels (im : Img) (pts : List (List Int)) : Except Err Img := do
  let sls ← boxSlices im.cs.shape pts
  im.subSlices sls

/-- `Image.subregion(CoordinateArray)` -/
def Img.subCoords (im : Img) (pts : List (List Rat)) : Except Err Img := do
  let vox ← im.cs.voxelB pts
  let sls ← boxSlices im.cs.shape vox
  im.subSlices sls

/-- Python index into a sequence of length `T` -/
def pyIndex (T : Nat) (k : Int) : Except Err Nat :=
  if 0 ≤ k ∧ k < T then .ok k.toNat else if k < 0 ∧ -(T : Int) ≤ k then .ok (k + T).toNat else .error .index

/-- relative time of a new single-time image built with `time=t, date=d, reference_date=ref`
(`set_time`): the given time, or — when none is given — the date relative to the reference date -/
def sliceTime (t : Option Rat) (d : Option Int) (ref : Option Int) : Except Err (Option Rat) :=
  match t with
  | some t => .ok (some t)
  | none => match d with
    | none => .ok none
    | some x => match ref with
      | none => .error .type
      | some r => .ok (some (secondsBetween x r))

/-- `Image.time_slice(k)` -/
def Img.timeSlice (im : Img) (k : Int) : Except Err Img :=
  if !im.series then .error .value else
  match pyIndex im.slabs.length k with
  | .error e => .error e
  | .ok i =>
    match sliceTime (listGetD im.time i none) (listGetD im.date i none) im.ref with
    | .error e => .error e
    | .ok tm =>
      match im.slabs[i]? with
      | none => .error .index
      | some sl => .ok { im with series := false, slabs := [sl], time := [tm], date := [listGetD im.date i none] }

/-- `Image.time_interval(slice)` -/
def Img.timeInterval (im : Img) (s : PySlice) : Except Err Img := do
  if !im.series then throw .value
  let r := sliceIdx im.slabs.length s
  pure { im with slabs := Patch.sliceL im.slabs r, time := Patch.sliceL im.time r, date := Patch.sliceL im.date r }

/-- the safety checks of `Image.append` -/
def appendChecks (im other : Img) : Except Err Unit := do
  if im.cs.dim ≠ other.cs.dim then throw .assertion
  if im.scalar ≠ other.scalar then throw .assertion
  -- `np.allclose(num_voxels, …)`: for extents below 1e5 the tolerance cannot bridge two different integers; modelled as equality
  if im.cs.shape ≠ other.cs.shape then throw .assertion
  if !anyNone im.date && !anyNone other.date then
    match im.date.getLast?, other.date.head? with
    | some (some a), some (some b) => if ¬ a < b then throw .assertion
    | _, _ => pure ()
  -- `assert np.allclose(self.dimensions, image.dimensions)`, `assert np.allclose(self.origin, image.origin)`:
  -- numpy's tolerance (|a − b| ≤ 1e-8 + 1e-5·|b|), not equality; the receiver's geometry is kept
  if !(← allcloseL npClose im.cs.dims other.cs.dims) then throw .assertion
  if !(← allcloseL npClose im.cs.origin other.cs.origin) then throw .assertion

/-- the relative times of the appended series (`Image.append` + `set_time`) -/
def appendTimes (im other : Img) (offset : Option Rat) : Except Err (List (Option Rat)) :=
  if anyNone im.time || anyNone other.time then timesFromDates (im.date ++ other.date) im.ref
  else if offset.isNone && !(anyNone im.date || anyNone other.date) then timesFromDates (im.date ++ other.date) im.ref
  else .ok (im.time ++ other.time.map fun t => t.map (· + offset.getD 0))

/-- `Image.append(image, offset)` (returns the updated `self`) -/
def Img.append (im other : Img) (offset : Option Rat) : Except Err Img := do
  appendChecks im other
  let tm ← appendTimes im other offset
  pure { im with series := true, slabs := im.slabs ++ other.slabs, time := tm, date := im.date ++ other.date }

/-- `darsia.stack(images)` -/
def stack : List Img → Except Err Img
  | [] => .error .index
  | im :: rest => rest.foldlM (fun acc o => acc.append o none) im

/-- extraction steps -/
inductive Step
  | sub (sls : List PySlice)
  | subVox (pts : List (List Int))
  | subCoord (pts : List (List Rat))
  | tslice (k : Int)
  | tinterval (s : PySlice)
  deriving Repr

def Img.step (im : Img) : Step → Except Err Img
  | .sub sls => im.subSlices sls
  | .subVox pts => im.subVoxels pts
  | .subCoord pts => im.subCoords pts
  | .tslice k => im.timeSlice k
  | .tinterval s => im.timeInterval s

/-- every spatial extent is positive (the property's "non-empty voxel ranges") -/
def Img.nonempty (im : Img) : Bool := im.cs.shape.all (0 < ·)

/-- run a program of extraction steps; `none` if a step raises or yields an empty image -/
def Img.runOk (im : Img) : List Step → Option Img
  | [] => some im
  | s :: ss => match im.step s with
    | .ok im' => if im'.nonempty then im'.runOk ss else none
    | .error _ => none

/-- run a program, errors as data (driver) -/
def Img.run (im : Img) (ss : List Step) : Except Err Img := ss.foldlM Img.step im

end Darsia.Im

namespace Darsia.Im
open Darsia

/-- the voxel offset a step adds to the placement (normalised slice starts; zero for the time steps) -/
def Img.stepStarts (im : Img) : Step → Except Err (List Nat)
  | .sub sls => .ok ((List.zipWith sliceIdx im.cs.shape sls).map (·.1))
  | .subVox pts => (boxSlices im.cs.shape pts).map fun sls => (List.zipWith sliceIdx im.cs.shape sls).map (·.1)
  | .subCoord pts => do
    let vox ← im.cs.voxelB pts
    let sls ← boxSlices im.cs.shape vox
    pure ((List.zipWith sliceIdx im.cs.shape sls).map (·.1))
  | .tslice _ => .ok (List.replicate im.cs.dim.toNat 0)
  | .tinterval _ => .ok (List.replicate im.cs.dim.toNat 0)

/-- run a program and accumulate the composed voxel offset w.r.t. the image the program started from -/
def Img.runOff (im : Img) (off : List Nat) : List Step → Option (Img × List Nat)
  | [] => some (im, off)
  | s :: ss => match im.step s, im.stepStarts s with
    | .ok im', .ok st => if im'.nonempty then im'.runOff (List.zipWith (· + ·) off st) ss else none
    | _, _ => none

end Darsia.Im
