/-
C09 — model of `TransformationCorrection.correct_array` (darsia/corrections/shape/transformation.py):
pull-back warp. For every destination voxel v:
  1. centre           v + ½                                  (`voxels_dst.to_voxel_center()`)
  2. typed input      Coordinate: cs_dst.coordinate(centre) | Voxel: Voxel(centre) | VoxelCenter: centre
  3. inverse map      transformation.inverse_array, result wrapped in the *input* point type
                      (Coordinate: as is | Voxel: rnd | VoxelCenter: rnd + ½)
  4. to_voxel(cs_src) Coordinate: floor((x − origin)·(±1)/h) | Voxel: as is | VoxelCenter: rnd
  5. valid iff 0 ≤ voxel < cs_src.shape; invalid destination voxels stay 0.
`rnd` is the rounding of the point constructors `Voxel.__new__` / `VoxelCenter.__new__` in utils/point.py
(`floor` since the point fix; `astype(int)` = truncation toward zero before it). It is a parameter here and
tabulated from the running code on every check (DarsiaGen.PointRounding; currently `.floor`).

Coordinate systems: matrix indexing "ij" / "ijk"; `interpret_indexing` gives
  2-D: x ↦ (matrix axis 1, not reverted), y ↦ (0, reverted)
  3-D: x ↦ (1, not reverted), y ↦ (2, reverted), z ↦ (0, reverted)
`h_i` is the voxel size along *matrix* axis i (= dimensions[i] / shape[i]).
Voxel multi-indices are carried in `V2`/`V3` with field x = matrix axis 0, y = axis 1, z = axis 2.
-/
import DarsiaModel.Affine
namespace Darsia.Warp
open Darsia.Affine

inductive Rounding | trunc | floor
  deriving DecidableEq, Repr

/-- numpy `astype(int)` on a float: truncation toward zero -/
def truncRat (q : Rat) : Int := if 0 ≤ q then q.floor else -((-q).floor)

def Rounding.app : Rounding → Rat → Int
  | .trunc, q => truncRat q
  | .floor, q => q.floor

inductive Mode | coord | voxel | center
  deriving DecidableEq, Repr

def half : Rat := 1 / 2

/-! ### 2-D -/

structure CS2 where
  n0 : Nat
  n1 : Nat
  ox : Rat
  oy : Rat
  h0 : Rat
  h1 : Rat

/-- `CoordinateSystem.coordinate` (voxel, possibly fractional ↦ Cartesian coordinate) -/
def CS2.coordinate (cs : CS2) (p : V2 Rat) : V2 Rat :=
  ⟨cs.ox + p.y * cs.h1, cs.oy + (-1) * p.x * cs.h0⟩

/-- `CoordinateSystem.voxel` (Cartesian coordinate ↦ voxel; `np.floor`) -/
def CS2.voxel (cs : CS2) (c : V2 Rat) : Int × Int :=
  (((-1) * (c.y - cs.oy) / cs.h0).floor, ((c.x - cs.ox) / cs.h1).floor)

/-- quantities that get rounded last (for the float bridge: distance to a breakpoint) -/
def pre2 (mode : Mode) (T : Affine2 Rat) (csS csD : CS2) (rnd : Rounding) (v0 v1 : Int) : List Rat :=
  let ctr : V2 Rat := ⟨(v0 : Rat) + half, (v1 : Rat) + half⟩
  match mode with
  | .coord =>
    let y := T.inverse (csD.coordinate ctr)
    [(-1) * (y.y - csS.oy) / csS.h0, (y.x - csS.ox) / csS.h1]
  | .voxel =>
    let y := T.inverse ⟨(rnd.app ctr.x : Rat), (rnd.app ctr.y : Rat)⟩
    [y.x, y.y]
  | .center =>
    let y := T.inverse ctr
    [y.x, y.y]

/-- source voxel of destination voxel (v0, v1) -/
def src2 (mode : Mode) (T : Affine2 Rat) (csS csD : CS2) (rnd : Rounding) (v0 v1 : Int) : Int × Int :=
  let ctr : V2 Rat := ⟨(v0 : Rat) + half, (v1 : Rat) + half⟩
  match mode with
  | .coord => csS.voxel (T.inverse (csD.coordinate ctr))
  | .voxel =>
    let y := T.inverse ⟨(rnd.app ctr.x : Rat), (rnd.app ctr.y : Rat)⟩
    (rnd.app y.x, rnd.app y.y)
  | .center =>
    let y := T.inverse ctr
    (rnd.app ((rnd.app y.x : Rat) + half), rnd.app ((rnd.app y.y : Rat) + half))

def CS2.valid (cs : CS2) (p : Int × Int) : Bool :=
  decide (0 ≤ p.1) && decide (p.1 < cs.n0) && decide (0 ≤ p.2) && decide (p.2 < cs.n1)

/-- the warped array as a function on destination voxels (zero fill) -/
def warp2 {β : Type} (zero : β) (mode : Mode) (T : Affine2 Rat) (csS csD : CS2) (rnd : Rounding)
    (arr : Int → Int → β) (v0 v1 : Int) : β :=
  let p := src2 mode T csS csD rnd v0 v1
  if csS.valid p then arr p.1 p.2 else zero

/-- translation parameter that expresses "shift by (k0, k1) whole voxels" in the units of the mode:
physical coordinates (x grows with the column, y decreases with the row) or voxels / voxel centres -/
def shiftVec2 (mode : Mode) (cs : CS2) (k0 k1 : Int) : V2 Rat :=
  match mode with
  | .coord => ⟨(k1 : Rat) * cs.h1, -((k0 : Rat) * cs.h0)⟩
  | _ => ⟨(k0 : Rat), (k1 : Rat)⟩

/-- `AffineCorrection(..., fit_options = {"isometry": True})` converts its reference points to physical coordinates of
voxel centres: source points with the SOURCE system, destination points with the DESTINATION system. For reference
pairs p ↦ p + (k0, k1) (a whole-voxel shift onto another canvas) the pairs differ by this vector: -/
def isoShiftVec (csS csD : CS2) (k0 k1 : Int) : V2 Rat :=
  V2.sub (csD.coordinate ⟨(k0 : Rat) + half, (k1 : Rat) + half⟩) (csS.coordinate ⟨half, half⟩)

/-- specification: the array shifted by whole voxels (k0, k1) with zero fill -/
def shift2 {β : Type} (zero : β) (n0 n1 : Nat) (k0 k1 : Int) (arr : Int → Int → β) (v0 v1 : Int) : β :=
  if 0 ≤ v0 - k0 ∧ v0 - k0 < n0 ∧ 0 ≤ v1 - k1 ∧ v1 - k1 < n1 then arr (v0 - k0) (v1 - k1) else zero

/-- specification: `np.rot90(arr, 1)` of an n0 × n1 array, as a function on the n1 × n0 result -/
def rot90 {β : Type} (n1 : Nat) (arr : Int → Int → β) (v0 v1 : Int) : β := arr v1 ((n1 : Int) - 1 - v0)

/-! ### 3-D -/

structure CS3 where
  n0 : Nat
  n1 : Nat
  n2 : Nat
  ox : Rat
  oy : Rat
  oz : Rat
  h0 : Rat
  h1 : Rat
  h2 : Rat

def CS3.coordinate (cs : CS3) (p : V3 Rat) : V3 Rat :=
  ⟨cs.ox + p.y * cs.h1, cs.oy + (-1) * p.z * cs.h2, cs.oz + (-1) * p.x * cs.h0⟩

def CS3.voxel (cs : CS3) (c : V3 Rat) : Int × Int × Int :=
  (((-1) * (c.z - cs.oz) / cs.h0).floor, ((c.x - cs.ox) / cs.h1).floor, ((-1) * (c.y - cs.oy) / cs.h2).floor)

def pre3 (mode : Mode) (T : Affine3 Rat) (csS csD : CS3) (rnd : Rounding) (v0 v1 v2 : Int) : List Rat :=
  let ctr : V3 Rat := ⟨(v0 : Rat) + half, (v1 : Rat) + half, (v2 : Rat) + half⟩
  match mode with
  | .coord =>
    let y := T.inverse (csD.coordinate ctr)
    [(-1) * (y.z - csS.oz) / csS.h0, (y.x - csS.ox) / csS.h1, (-1) * (y.y - csS.oy) / csS.h2]
  | .voxel =>
    let y := T.inverse ⟨(rnd.app ctr.x : Rat), (rnd.app ctr.y : Rat), (rnd.app ctr.z : Rat)⟩
    [y.x, y.y, y.z]
  | .center =>
    let y := T.inverse ctr
    [y.x, y.y, y.z]

def src3 (mode : Mode) (T : Affine3 Rat) (csS csD : CS3) (rnd : Rounding) (v0 v1 v2 : Int) : Int × Int × Int :=
  let ctr : V3 Rat := ⟨(v0 : Rat) + half, (v1 : Rat) + half, (v2 : Rat) + half⟩
  match mode with
  | .coord => csS.voxel (T.inverse (csD.coordinate ctr))
  | .voxel =>
    let y := T.inverse ⟨(rnd.app ctr.x : Rat), (rnd.app ctr.y : Rat), (rnd.app ctr.z : Rat)⟩
    (rnd.app y.x, rnd.app y.y, rnd.app y.z)
  | .center =>
    let y := T.inverse ctr
    (rnd.app ((rnd.app y.x : Rat) + half), rnd.app ((rnd.app y.y : Rat) + half),
     rnd.app ((rnd.app y.z : Rat) + half))

def CS3.valid (cs : CS3) (p : Int × Int × Int) : Bool :=
  decide (0 ≤ p.1) && decide (p.1 < cs.n0) && decide (0 ≤ p.2.1) && decide (p.2.1 < cs.n1)
    && decide (0 ≤ p.2.2) && decide (p.2.2 < cs.n2)

def warp3 {β : Type} (zero : β) (mode : Mode) (T : Affine3 Rat) (csS csD : CS3) (rnd : Rounding)
    (arr : Int → Int → Int → β) (v0 v1 v2 : Int) : β :=
  let p := src3 mode T csS csD rnd v0 v1 v2
  if csS.valid p then arr p.1 p.2.1 p.2.2 else zero

def shiftVec3 (mode : Mode) (cs : CS3) (k0 k1 k2 : Int) : V3 Rat :=
  match mode with
  | .coord => ⟨(k1 : Rat) * cs.h1, -((k2 : Rat) * cs.h2), -((k0 : Rat) * cs.h0)⟩
  | _ => ⟨(k0 : Rat), (k1 : Rat), (k2 : Rat)⟩

def shift3 {β : Type} (zero : β) (n0 n1 n2 : Nat) (k0 k1 k2 : Int) (arr : Int → Int → Int → β)
    (v0 v1 v2 : Int) : β :=
  if 0 ≤ v0 - k0 ∧ v0 - k0 < n0 ∧ 0 ≤ v1 - k1 ∧ v1 - k1 < n1 ∧ 0 ≤ v2 - k2 ∧ v2 - k2 < n2
  then arr (v0 - k0) (v1 - k1) (v2 - k2) else zero

/-! ### metadata of `CoordinateTransformation.__call__` -/

structure Meta where
  dimensions : List Rat
  origin : List Rat
  other : List Nat   -- every other metadata entry (opaque)
  deriving DecidableEq, Repr

/-- `correct_metadata`: copy of the source metadata with dimensions and origin of the destination system -/
def correctMeta (src : Meta) (dstDimensions dstOrigin : List Rat) : Meta :=
  { src with dimensions := dstDimensions, origin := dstOrigin }

/-- wrapping an array of numbers in a point type: Coordinate keeps them, Voxel rounds (`rnd`), VoxelCenter rounds and adds ½ -/
def wrapPoint2 (mode : Mode) (rnd : Rounding) (v : V2 Rat) : V2 Rat :=
  match mode with
  | .coord => v
  | .voxel => ⟨(rnd.app v.x : Rat), (rnd.app v.y : Rat)⟩
  | .center => ⟨(rnd.app v.x : Rat) + half, (rnd.app v.y : Rat) + half⟩

/-- `BaseTransformation.__call__` on a typed point / point set: `call_array`, result wrapped in the OUTPUT point type (the
same for single points and for arrays of points) -/
def typedCall2 (outMode : Mode) (rnd : Rounding) (T : Affine2 Rat) (x : V2 Rat) : V2 Rat := wrapPoint2 outMode rnd (T.call x)
/-- `BaseTransformation.inverse`: `inverse_array`, result wrapped in the INPUT point type -/
def typedInverse2 (inMode : Mode) (rnd : Rounding) (T : Affine2 Rat) (y : V2 Rat) : V2 Rat := wrapPoint2 inMode rnd (T.inverse y)

/-- `CoordinateTransformation.__call__`: `type(image)(affine_correction(image).img, **correct_metadata(image))` — the
result has the class of the input (`kind`: 0 Image, 1 ScalarImage, 2 OpticalImage) and the corrected metadata -/
def coordTransfCall (kind : Nat) (src : Meta) (dstDimensions dstOrigin : List Rat) : Nat × Meta :=
  (kind, correctMeta src dstDimensions dstOrigin)

/-- distance to the nearest integer -/
def fracDist (q : Rat) : Rat :=
  let f := q - (q.floor : Rat)
  if f ≤ half then f else 1 - f

end Darsia.Warp
