/-
Pixel ARRAYS of images (C02, round 2). An array is a function from a raw numpy multi-index
(spatial axes, then the time axis if `series`, then the component axis if not `scalar`) to a value
tag naming the root array, root time index, root voxel and component the entry was taken from.
The numpy operations used by `Image.subregion / time_slice / time_interval / append` and `stack` are
defined on such functions exactly as numpy defines them on indices (basic slicing adds the slice
start; `a[..., i]` / `a[..., i, :]` insert `i` counted from the END of the index; `np.stack(axis=p)`
dispatches on entry `p` of the index). `ImgA` pairs the metadata model (`Im.Img`) with the array.
Core Lean only.
-/
import DarsiaModel.ImageMeta
namespace Darsia.Im
open Darsia

structure Tag where
  rid : Nat
  t : Nat
  vox : List Nat
  comp : Nat
  deriving DecidableEq, Repr

structure NArr where
  shape : List Nat
  get : List Nat → Tag

/-- `a[s0, s1, …]`: basic slices (already normalised, step 1) on the leading axes -/
def addLead : List Nat → List Nat → List Nat
  | [], idx => idx
  | _ :: _, [] => []
  | o :: os, i :: is => (o + i) :: addLead os is

def leadShape : List (Nat × Nat) → List Nat → List Nat
  | [], sh => sh
  | _ :: _, [] => []
  | s :: ss, _ :: sh => (s.2 - s.1) :: leadShape ss sh

def NArr.sliceLead (a : NArr) (ns : List (Nat × Nat)) : NArr :=
  ⟨leadShape ns a.shape, fun idx => a.get (addLead (ns.map (·.1)) idx)⟩

def insertAt (l : List Nat) (p x : Nat) : List Nat := l.take p ++ x :: l.drop p

/-- `a[..., i]` (q = 0) / `a[..., i, :]` (q = 1): index the axis that is `q` before the last one -/
def NArr.indexFromEnd (a : NArr) (q i : Nat) : NArr :=
  ⟨a.shape.eraseIdx (a.shape.length - 1 - q), fun idx => a.get (insertAt idx (idx.length - q) i)⟩

def addAt : List Nat → Nat → Nat → List Nat
  | [], _, _ => []
  | x :: xs, 0, d => (x + d) :: xs
  | x :: xs, p + 1, d => x :: addAt xs p d

/-- `a[..., r]` (q = 0) / `a[..., r, :]` (q = 1) with a normalised slice `r` -/
def NArr.sliceFromEnd (a : NArr) (q : Nat) (r : Nat × Nat) : NArr :=
  ⟨setAt a.shape (a.shape.length - 1 - q) (min (r.2 - r.1) (listGetD a.shape (a.shape.length - 1 - q) 0 - r.1)),
   fun idx => a.get (addAt idx (idx.length - 1 - q) r.1)⟩

/-- `np.stack(arrays, axis = p)` -/
def stackAt (p : Nat) (l : List NArr) : NArr :=
  ⟨insertAt ((l.head?.map (·.shape)).getD []) p l.length,
   fun idx => match l[listGetD idx p 0]? with
     | some a => a.get (idx.eraseIdx p)
     | none => ⟨0, 0, [], 0⟩⟩

/-- image = metadata + pixel array -/
structure ImgA where
  md : Img
  arr : NArr

/-- 0 for scalar payload (time axis last), 1 for vector payload (component axis last) -/
def ImgA.q (a : ImgA) : Nat := if a.md.scalar then 0 else 1

/-- the raw index of (time index, voxel, component) under the image's payload layout -/
def ImgA.rawIdx (a : ImgA) (t : Nat) (v : List Nat) (c : Nat) : List Nat :=
  v ++ (if a.md.series then [t] else []) ++ (if a.md.scalar then [] else [c])

/-- logical view of the pixel array -/
def ImgA.data (a : ImgA) (t : Nat) (v : List Nat) (c : Nat) : Tag := a.arr.get (a.rawIdx t v c)

/-- freshly constructed image on root array `rid` with `C` components (`C` ignored for scalar payload) -/
def mkRootA (rid : Nat) (cs : CS) (series scalar : Bool) (T C : Nat) (time : Option (List (Option Rat)))
    (date : List (Option Int)) : Except Err ImgA := do
  let m ← mkRoot rid cs series scalar T time date
  let d := cs.dim.toNat
  let shape := cs.shape ++ (if series then [T] else []) ++ (if scalar then [] else [C])
  pure ⟨m, ⟨shape, fun idx =>
    ⟨rid, if series then listGetD idx d 0 else 0, idx.take d,
     if scalar then 0 else listGetD idx (if series then d + 1 else d) 0⟩⟩⟩

def ImgA.subSlices (a : ImgA) (sls : List PySlice) : Except Err ImgA := do
  let m ← a.md.subSlices sls
  pure ⟨m, a.arr.sliceLead (List.zipWith sliceIdx a.md.cs.shape sls)⟩

/-- the time slabs `slice_image(im)` of `Image.append` -/
def ImgA.slices (a : ImgA) : List NArr :=
  if a.md.series then (List.range a.md.slabs.length).map fun i => a.arr.indexFromEnd a.q i else [a.arr]

def ImgA.step (a : ImgA) : Step → Except Err ImgA
  | .sub sls => a.subSlices sls
  | .subVox pts => do let sls ← boxSlices a.md.cs.shape pts; a.subSlices sls
  | .subCoord pts => do
    let vox ← a.md.cs.voxelB pts
    let sls ← boxSlices a.md.cs.shape vox
    a.subSlices sls
  | .tslice k => do
    let m ← a.md.timeSlice k
    let i ← pyIndex a.md.slabs.length k
    pure ⟨m, a.arr.indexFromEnd a.q i⟩
  | .tinterval s => do
    let m ← a.md.timeInterval s
    pure ⟨m, a.arr.sliceFromEnd a.q (sliceIdx a.md.slabs.length s)⟩

/-- `Image.append`: `np.stack(slices(self) + slices(image), axis = space_dim)` -/
def ImgA.append (a b : ImgA) (offset : Option Rat) : Except Err ImgA := do
  let m ← a.md.append b.md offset
  pure ⟨m, stackAt a.md.cs.dim.toNat (a.slices ++ b.slices)⟩

def stackA : List ImgA → Except Err ImgA
  | [] => .error .index
  | im :: rest => rest.foldlM (fun acc o => acc.append o none) im

def ImgA.runOk (a : ImgA) : List Step → Option ImgA
  | [] => some a
  | s :: ss => match a.step s with
    | .ok a' => if a'.md.nonempty then a'.runOk ss else none
    | .error _ => none

def ImgA.run (a : ImgA) (ss : List Step) : Except Err ImgA := ss.foldlM ImgA.step a

end Darsia.Im
