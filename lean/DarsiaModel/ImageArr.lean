/-
Pixel ARRAYS of images (C02, round 2). An array is a function from a raw numpy multi-index
(spatial axes, then the time axis if `series`, then the component axis if not `scalar`) to a value
tag naming the root array, root time index, root voxel and component the entry was taken from.
The numpy operations used by `Image.subregion / time_slice / time_interval / append` and `stack` are
defined on such functions exactly as numpy defines them on indices (basic slicing adds the slice
start; the time axis is indexed at position `space_dim` (`a[(slice(None),)*space_dim + (i,)]`); `np.stack(axis=p)`
dispatches on entry `p` of the index). `ImgA` pairs the metadata model (`Im.Img`) with the array.
Core Lean only.
-/
import DarsiaModel.ImageMeta
namespace Darsia.Im
open Darsia

structure Tag where
  rid : Nat
  t : Nat
  vox : List Nat
  comp : List Nat
  deriving DecidableEq, Repr

structure NArr where
  shape : List Nat
  get : List Nat → Tag

/-- `a[s0, s1, …]`: basic slices (already normalised, step 1) on the leading axes -/
def addLead : List Nat → List Nat → List Nat
  | [], idx => idx
  | _ :: _, [] => []
  | o :: os, i :: is => (o + i) :: addLead os is

def leadShape : List (Nat × Nat) → List Nat → List Nat
  | [], sh => sh
  | _ :: _, [] => []
  | s :: ss, _ :: sh => (s.2 - s.1) :: leadShape ss sh

def NArr.sliceLead (a : NArr) (ns : List (Nat × Nat)) : NArr :=
  ⟨leadShape ns a.shape, fun idx => a.get (addLead (ns.map (·.1)) idx)⟩

def insertAt (l : List Nat) (p x : Nat) : List Nat := l.take p ++ x :: l.drop p

/-- `a[:, …, :, i]` with `p` leading full slices: index axis `p` (the code indexes the time axis at position `space_dim`,
whatever data axes follow) -/
def NArr.indexAt (a : NArr) (p i : Nat) : NArr :=
  ⟨a.shape.eraseIdx p, fun idx => a.get (insertAt idx p i)⟩

def addAt : List Nat → Nat → Nat → List Nat
  | [], _, _ => []
  | x :: xs, 0, d => (x + d) :: xs
  | x :: xs, p + 1, d => x :: addAt xs p d

/-- `a[:, …, :, r]` with a normalised slice `r` on axis `p` -/
def NArr.sliceAt (a : NArr) (p : Nat) (r : Nat × Nat) : NArr :=
  ⟨setAt a.shape p (min (r.2 - r.1) (listGetD a.shape p 0 - r.1)), fun idx => a.get (addAt idx p r.1)⟩

/-- `np.stack(arrays, axis = p)` -/
def stackAt (p : Nat) (l : List NArr) : NArr :=
  ⟨insertAt ((l.head?.map (·.shape)).getD []) p l.length,
   fun idx => match l[listGetD idx p 0]? with
     | some a => a.get (idx.eraseIdx p)
     | none => ⟨0, 0, [], []⟩⟩

/-- image = metadata + pixel array -/
structure ImgA where
  md : Img
  arr : NArr

/-- the raw index of (time index, voxel, component multi-index) — the component multi-index is `[]` for scalar payloads,
`[c]` for vector payloads, `[c0, c1, …]` for tensor payloads; the time axis sits at position `space_dim` -/
def ImgA.rawIdx (a : ImgA) (t : Nat) (v : List Nat) (c : List Nat) : List Nat :=
  v ++ (if a.md.series then [t] else []) ++ c

/-- logical view of the pixel array -/
def ImgA.data (a : ImgA) (t : Nat) (v : List Nat) (c : List Nat) : Tag := a.arr.get (a.rawIdx t v c)

/-- freshly constructed image on root array `rid` whose data axes have shape `cshape` (`[]` scalar, `[C]` vector, …) -/
def mkRootA (rid : Nat) (cs : CS) (series scalar : Bool) (T : Nat) (cshape : List Nat) (time : Option (List (Option Rat)))
    (date : List (Option Int)) : Except Err ImgA := do
  let m ← mkRoot rid cs series scalar T time date
  let d := cs.dim.toNat
  let shape := cs.shape ++ (if series then [T] else []) ++ cshape
  pure ⟨m, ⟨shape, fun idx =>
    ⟨rid, if series then listGetD idx d 0 else 0, idx.take d, idx.drop (if series then d + 1 else d)⟩⟩⟩

def ImgA.subSlices (a : ImgA) (sls : List PySlice) : Except Err ImgA := do
  let m ← a.md.subSlices sls
  pure ⟨m, a.arr.sliceLead (List.zipWith sliceIdx a.md.cs.shape sls)⟩

/-- the time slabs `slice_image(im)` of `Image.append` -/
def ImgA.slices (a : ImgA) : List NArr :=
  if a.md.series then (List.range a.md.slabs.length).map fun i => a.arr.indexAt a.md.cs.dim.toNat i else [a.arr]

def ImgA.step (a : ImgA) : Step → Except Err ImgA
  | .sub sls => a.subSlices sls
  | .subVox pts => do let sls ← boxSlices a.md.cs.shape pts; a.subSlices sls
  | .subCoord pts => do
    let vox ← a.md.cs.voxelB pts
    let sls ← boxSlices a.md.cs.shape vox
    a.subSlices sls
  | .tslice k => do
    let m ← a.md.timeSlice k
    let i ← pyIndex a.md.slabs.length k
    pure ⟨m, a.arr.indexAt a.md.cs.dim.toNat i⟩
  | .tinterval s => do
    let m ← a.md.timeInterval s
    pure ⟨m, a.arr.sliceAt a.md.cs.dim.toNat (sliceIdx a.md.slabs.length s)⟩

/-- `Image.append`: `np.stack(slices(self) + slices(image), axis = space_dim)` -/
def ImgA.append (a b : ImgA) (offset : Option Rat) : Except Err ImgA := do
  let m ← a.md.append b.md offset
  pure ⟨m, stackAt a.md.cs.dim.toNat (a.slices ++ b.slices)⟩

def stackA : List ImgA → Except Err ImgA
  | [] => .error .index
  | im :: rest => rest.foldlM (fun acc o => acc.append o none) im

def ImgA.runOk (a : ImgA) : List Step → Option ImgA
  | [] => some a
  | s :: ss => match a.step s with
    | .ok a' => if a'.md.nonempty then a'.runOk ss else none
    | .error _ => none

def ImgA.run (a : ImgA) (ss : List Step) : Except Err ImgA := ss.foldlM ImgA.step a

end Darsia.Im
