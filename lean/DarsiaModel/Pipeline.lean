/-
C13 — skeleton of `darsia.ConcentrationAnalysis`.

Arrays are lists of pixels, a pixel is the list of its channel values (scalar arrays: one value per
pixel, flagged `scalar`). The stage objects (signal reduction, balancing, restoration, model) are
*parameters*: arbitrary functions on arrays which, like Python callables, may also scribble on the
buffer they are given (`Stage` returns the output and the new content of its input buffer).
Mirrors `ConcentrationAnalysis.__init__`, `find_cleaning_filter`, `__call__`, `_subtract_background`,
`_clean_signal`. dtype conversion (`img_as(float)` of integer images) happens before this skeleton and
is outside the model. Core Lean only.
-/
import DarsiaModel.Basic
namespace Darsia.Pipeline
open Darsia

abbrev Px := List Rat

structure Arr where
  /-- `true`: shape (h, w); `false`: shape (h, w, c) -/
  scalar : Bool
  px : List Px
  deriving DecidableEq, Repr

def Arr.ndim (a : Arr) : Nat := if a.scalar then 2 else 3

inductive DiffOpt | positive | negative | absolute | plain
  deriving DecidableEq, Repr

def DiffOpt.all : List DiffOpt := [.positive, .negative, .absolute, .plain]

def posPart (x : Rat) : Rat := if 0 ≤ x then x else 0
def absR (x : Rat) : Rat := if 0 ≤ x then x else -x

/-- one value of `_subtract_background` : probe value `p`, baseline value `b` -/
def DiffOpt.val : DiffOpt → Rat → Rat → Rat
  | .positive, p, b => posPart (p - b)       -- np.clip(img - base, 0, None)
  | .negative, p, b => posPart (b - p)       -- np.clip(base - img, 0, None)
  | .absolute, p, b => absR (p - b)          -- skimage compare_images(method="diff")
  | .plain, p, b => p - b

/-- `_subtract_background` with a baseline (element-wise) -/
def diff (o : DiffOpt) (base probe : Arr) : Arr :=
  { scalar := probe.scalar, px := List.zipWith (fun p b => List.zipWith (o.val) p b) probe.px base.px }

/-- `_subtract_background` without a baseline (`base is None`) -/
def diffNoBase (o : DiffOpt) (probe : Arr) : Arr :=
  { scalar := probe.scalar, px := probe.px.map fun p => p.map fun x => o.val x 0 }

/-- a Python callable working on an array: output and (possibly modified) input buffer -/
abbrev Stage := Arr → Arr × Arr

/-- a well-behaved callable -/
def Stage.pure (f : Arr → Arr) : Stage := fun a => (f a, a)

inductive StageName | reduction | cleaning | balancing | restoration | model
  deriving DecidableEq, Repr

def StageName.show : StageName → String
  | .reduction => "reduction" | .cleaning => "cleaning" | .balancing => "balancing"
  | .restoration => "restoration" | .model => "model"

structure Config where
  opt : DiffOpt
  reduction : Option Stage
  balancing : Option Stage
  restoration : Option Stage
  model : Option Stage
  /-- `kwargs["restoration -> model"]` (default `True`) -/
  restorationFirst : Bool

/-- `_clean_signal`: `np.clip(img - threshold, 0, None)`; the threshold has the shape of the (reduced) signal -/
def clean (thr : List Px) (a : Arr) : Arr :=
  { a with px := List.zipWith (fun p tp => List.zipWith (fun x t => posPart (x - t)) p tp) a.px thr }

/-- `max`, written as the code's comparison -/
def maxR (t x : Rat) : Rat := if t ≤ x then x else t

/-- `np.maximum(threshold, signal)`, element-wise -/
def maxWith (thr : List Px) (a : Arr) : List Px :=
  List.zipWith (fun tp p => List.zipWith maxR tp p) thr a.px

def applyOpt (s : Option Stage) (a : Arr) : Arr :=
  match s with | some f => (f a).1 | none => a

/-- `np.zeros(signal.shape)` -/
def zerosLike (a : Arr) : List Px := a.px.map fun p => p.map fun _ => 0

/-- the reduced difference of an extra baseline with the baseline -/
def extraSignal (c : Config) (base b : Arr) : Arr := applyOpt c.reduction (diff c.opt base b)

/-- `find_cleaning_filter`: zeros of the shape of the first reduced difference, then element-wise max of the
reduced differences of all extra baselines; `none` when there are no extra baselines -/
def cleaningFilter (c : Config) (base : Arr) : List Arr → Option (List Px)
  | [] => none
  | e :: es => some ((e :: es).foldl (fun thr b => maxWith thr (extraSignal c base b)) (zerosLike (extraSignal c base e)))

/-- the stage objects that exist, in the order `__call__` applies them -/
def stageList (c : Config) (thr : Option (List Px)) : List (StageName × Stage) :=
  (c.reduction.toList.map fun s => (StageName.reduction, s)) ++
  (thr.toList.map fun t => (StageName.cleaning, Stage.pure (clean t))) ++
  (c.balancing.toList.map fun s => (StageName.balancing, s)) ++
  (if c.restorationFirst then
    (c.restoration.toList.map fun s => (StageName.restoration, s)) ++ (c.model.toList.map fun s => (StageName.model, s))
   else
    (c.model.toList.map fun s => (StageName.model, s)) ++ (c.restoration.toList.map fun s => (StageName.restoration, s)))

/-- the stage object behind a stage name (if the analysis has one) -/
def stageOf (c : Config) (thr : Option (List Px)) : StageName → Option Stage
  | .reduction => c.reduction
  | .cleaning => thr.map fun t => Stage.pure (clean t)
  | .balancing => c.balancing
  | .restoration => c.restoration
  | .model => c.model

/-- the stage objects that exist, for an ARBITRARY order of the private stage methods in `__call__` -/
def stageListOf (order : List StageName) (c : Config) (thr : Option (List Px)) : List (StageName × Stage) :=
  order.filterMap fun n => (stageOf c thr n).map fun s => (n, s)

/-- the documented order: reduction → cleaning → balancing → restoration → model, the last two swapped when
`"restoration -> model"` is false -/
def docOrder (restorationFirst : Bool) : List StageName :=
  if restorationFirst then [.reduction, .cleaning, .balancing, .restoration, .model]
  else [.reduction, .cleaning, .balancing, .model, .restoration]

/-- run stages left to right; the trace records each stage with the array it received -/
def runStages : List (StageName × Stage) → Arr → Arr × List (StageName × Arr)
  | [], a => (a, [])
  | (n, s) :: rest, a =>
    let r := runStages rest (s a).1
    (r.1, (n, a) :: r.2)

inductive Kind | image | scalarImage | opticalImage
  deriving DecidableEq, Repr

/-- `is_scalar = len(concentration.shape) == len(img.shape) - 1` → `ScalarImage`, else `type(img)` -/
def resultKind (probeKind : Kind) (probeNdim resNdim : Nat) : Kind :=
  if resNdim + 1 = probeNdim then .scalarImage else probeKind

structure Result where
  out : Arr
  trace : List (StageName × Arr)
  kind : Kind
  /-- buffers of the caller after the call: the probe image and the stored baseline -/
  probeAfter : Arr
  baseAfter : Option Arr

/-- `ConcentrationAnalysis.__call__`. `probe_img = copy.deepcopy(img)`; the difference is a new array
(with a baseline) or, for option `plain` without a baseline, the array of the *copy*; every stage receives
the output of the previous one. Nothing but the copy and intermediate arrays is ever handed to a stage,
whatever the stage does to its input. -/
def call (c : Config) (probeKind : Kind) (base : Option Arr) (extras : List Arr) (probe : Arr) : Result :=
  let copyBuf := probe
  let d := match base with
    | some b => diff c.opt b copyBuf
    | none => diffNoBase c.opt copyBuf
  let thr := match base with
    | some b => cleaningFilter c b extras
    | none => none
  let r := runStages (stageList c thr) d
  { out := r.1, trace := r.2, kind := resultKind probeKind probe.ndim r.1.ndim,
    probeAfter := probe, baseAfter := base }

/-- an array all of whose entries are zero -/
def IsZero (a : Arr) : Prop := ∀ p ∈ a.px, ∀ x ∈ p, x = 0

/-- the stage maps zero signals to zero signals (e.g. channel selections, gray, TVD, linear model without offset,
clipping with lower bound 0) -/
def ZeroPreserving (s : Option Stage) : Prop := ∀ f, s = some f → ∀ a, IsZero a → IsZero (f a).1

/-! ### concrete stage language of the correspondence driver -/

inductive StageFn
  | chan (k : Nat)            -- MonochromaticReduction(color = red / green / blue)
  | chanAdd (k l : Nat)       -- "red+green"
  | gray                      -- "gray" (default): cv2 RGB → gray, 0.299 R + 0.587 G + 0.114 B
  | negKey                    -- "negative-key": 1 - min(1 - c) over the channels = the largest channel
  /-- "hsv": the value channel where hue and saturation (skimage `rgb2hsv`) lie strictly inside the user's windows, else 0 -/
  | hsv (hueLo hueHi satLo satHi : Rat)
  | affine (a b : Rat)        -- LinearModel(scaling, offset) / ScalingModel
  | clip (lo : Rat) (hi : Option Rat)  -- ClipModel
  deriving Repr

/-- the documented gray value of an RGB pixel (ITU-R 601 weights, channel order R, G, B) -/
def grayOf (p : Px) : Rat :=
  (299 : Rat) / 1000 * listGetD p 0 0 + (587 : Rat) / 1000 * listGetD p 1 0 + (114 : Rat) / 1000 * listGetD p 2 0

/-- `skimage.color.rgb2hsv` of one non-negative RGB pixel: (hue in [0, 1), saturation, value) -/
def hsvOf (p : Px) : Rat × Rat × Rat :=
  let r := listGetD p 0 0
  let g := listGetD p 1 0
  let b := listGetD p 2 0
  let v := if r ≤ g then (if g ≤ b then b else g) else (if r ≤ b then b else r)
  let mn := if r ≤ g then (if r ≤ b then r else b) else (if g ≤ b then g else b)
  let delta := v - mn
  let s := if delta = 0 then 0 else delta / v
  -- the assignments "red is max", "green is max", "blue is max" are made in this order: the last one wins
  let h0 := if b = v then 4 + (r - g) / delta else if g = v then 2 + (b - r) / delta else (g - b) / delta
  let h6 := h0 / 6
  let h := if delta = 0 then 0 else if h6 < 0 then h6 + 1 else h6
  (h, s, v)

def hsvReduce (hueLo hueHi satLo satHi : Rat) (p : Px) : Rat :=
  let x := hsvOf p
  if hueLo < x.1 ∧ x.1 < hueHi ∧ satLo < x.2.1 ∧ x.2.1 < satHi then x.2.2 else 0

def clipR (lo : Rat) (hi : Option Rat) (x : Rat) : Rat :=
  let y := if x ≤ lo then lo else x
  match hi with | some h => if h ≤ y then h else y | none => y

def StageFn.eval : StageFn → Arr → Arr
  | .chan k, a => { scalar := true, px := a.px.map fun p => [listGetD p k 0] }
  | .chanAdd k l, a => { scalar := true, px := a.px.map fun p => [listGetD p k 0 + listGetD p l 0] }
  | .gray, a => { scalar := true, px := a.px.map fun p => [grayOf p] }
  | .negKey, a => { scalar := true, px := a.px.map fun p => [1 - (p.map (1 - ·)).foldl (fun m x => if x ≤ m then x else m) ((1 - p.headD 0))] }
  | .hsv a1 a2 a3 a4, a => { scalar := true, px := a.px.map fun p => [hsvReduce a1 a2 a3 a4 p] }
  | .affine s o, a => { a with px := a.px.map fun p => p.map fun x => s * x + o }
  | .clip lo hi, a => { a with px := a.px.map fun p => p.map (clipR lo hi) }

end Darsia.Pipeline

namespace Darsia.Pipeline

/-! ### integer images: promotion before the difference

`ConcentrationAnalysis` converts unsigned-integer baselines and probes with `img_as(float)` (skimage: divide by the
maximum of the type) *before* `_subtract_background`. -/

/-- `skimage.img_as_float` on an unsigned `bits`-bit value -/
def promote (bits n : Nat) : Rat := (n : Rat) / ((2 ^ bits - 1 : Nat) : Rat)

/-- what numpy computes for `p - b` on unsigned `bits`-bit arrays without promotion (wrap-around) -/
def wrapSub (bits p b : Nat) : Nat := (p + 2 ^ bits - b) % 2 ^ bits

/-- `_subtract_background` on promoted integer images, element-wise -/
def diffPromoted (bits : Nat) (o : DiffOpt) (base probe : List Nat) : List Rat :=
  List.zipWith (fun p b => o.val (promote bits p) (promote bits b)) probe base

/-! ### promotion per dtype class (every dtype `img_as(float)` accepts) -/

/-- numpy dtype kinds: unsigned / signed integer, bool, float -/
inductive DKind | u | i | b | f
  deriving DecidableEq, Repr

/-- what happens to a pixel value before the subtraction: `skimage.img_as_float` on an unsigned type (value / max), on a
signed type (value / max, clipped at −1), or nothing (floats of any precision; `True`/`False` become 1/0; also "the raw
value is used", which is what a missing promotion amounts to) -/
inductive PRule | unsigned | signedClip | asIs
  deriving DecidableEq, Repr

/-- the rule `Image.img_as(float)` applies to each kind; the constructor, `update` and `__call__` all use it -/
def DKind.rule : DKind → PRule
  | .u => .unsigned | .i => .signedClip | .b => .asIs | .f => .asIs

def PRule.apply (r : PRule) (bits : Nat) (x : Rat) : Rat :=
  match r with
  | .unsigned => x / ((2 ^ bits - 1 : Nat) : Rat)
  | .signedClip => maxR (-1) (x / ((2 ^ (bits - 1) - 1 : Nat) : Rat))
  | .asIs => x

/-- one row of the table tabulated from the implementation: the rule observed for `img_as(float)`, for the stored
baseline after construction and after `update(base=…)`, and for the probe inside `__call__` -/
structure DTypeRow where
  name : String
  kind : DKind
  bits : Nat
  imgAs : PRule
  ctor : PRule
  update : PRule
  call : PRule
  deriving DecidableEq, Repr

/-- `_subtract_background` on a probe value of kind `kp` and a baseline value of kind `kb`, each promoted by its own rule -/
def diffD (o : DiffOpt) (kb : DKind) (bb : Nat) (kp : DKind) (bp : Nat) (b p : Rat) : Rat :=
  o.val (kp.rule.apply bp p) (kb.rule.apply bb b)

def diffDList (o : DiffOpt) (kb : DKind) (bb : Nat) (kp : DKind) (bp : Nat) (base probe : List Rat) : List Rat :=
  List.zipWith (fun p b => diffD o kb bb kp bp b p) probe base

/-- the threshold after processing the reduced extra-baseline signals one after the other (the loop of
`find_cleaning_filter`), starting from zeros of the shape of the first -/
def accumulate (signals : List (List Px)) : List Px :=
  signals.foldl (fun thr s => List.zipWith (fun tp p => List.zipWith maxR tp p) thr s)
    ((signals.headD []).map fun p => p.map fun _ => 0)

/-! ### the analysis object as a state machine: construction, `update`, calls -/

structure AState where
  base : Option Arr
  thr : Option (List Px)

/-- `ConcentrationAnalysis.__init__` -/
def AState.init (c : Config) (base : Option Arr) (extras : List Arr) : AState :=
  { base := base, thr := match base with | some b => cleaningFilter c b extras | none => none }

/-- `update(base=b)` (fixed code): the promoted copy of `b` replaces the stored baseline; the cleaning filter is kept.
`update(mask=...)` does not enter the analysis of this class. -/
def AState.update (st : AState) (newBase : Option Arr) : AState :=
  match newBase with | some b => { st with base := some b } | none => st

/-- `__call__` in a given state -/
def callSt (c : Config) (probeKind : Kind) (st : AState) (probe : Arr) : Result :=
  let d := match st.base with
    | some b => diff c.opt b probe
    | none => diffNoBase c.opt probe
  let r := runStages (stageList c st.thr) d
  { out := r.1, trace := r.2, kind := resultKind probeKind probe.ndim r.1.ndim, probeAfter := probe, baseAfter := st.base }

/-! ### the call on buffers

Cell 0 is the caller's probe array, cell 1 the stored baseline (if any). `probe_img = copy.deepcopy(img)` allocates
a copy (`deep = true`; `deep = false` is the variant without it). The difference is a new array, except for option
`plain` without a baseline, where it IS the array of the (copied) probe. A stage receives a buffer, may overwrite
it (second component of `Stage`) and returns a new array. -/

def emptyArr : Arr := { scalar := true, px := [] }

def runStagesOp : List (StageName × Stage) → List Arr → Nat → List Arr × Nat
  | [], h, cur => (h, cur)
  | (_, s) :: rest, h, cur =>
    let r := s ((h[cur]?).getD emptyArr)
    runStagesOp rest (h.set cur r.2 ++ [r.1]) h.length

def callOp (deep : Bool) (c : Config) (st : AState) (probe : Arr) : List Arr × Nat :=
  let h0 := [probe] ++ st.base.toList
  let h1 := if deep then h0 ++ [probe] else h0
  let cp := if deep then h0.length else 0
  let img := (h1[cp]?).getD emptyArr
  match st.base with
  | some b => runStagesOp (stageList c st.thr) (h1 ++ [diff c.opt b img]) h1.length
  | none =>
    if c.opt = .plain then runStagesOp (stageList c st.thr) h1 cp
    else runStagesOp (stageList c st.thr) (h1 ++ [diffNoBase c.opt img]) h1.length

end Darsia.Pipeline
