/-
Model of the output assembly of `VariationalWassersteinDistance.__call__` (C04): everything the call returns
besides the status is computed from the flat solution `x = [flux | pressure | multiplier]` returned by `_solve`:

    flat_flux      = solution[flux_slice]                     x f,            f < num_faces
    flat_pressure  = solution[pressure_slice]                 x (num_faces + c)
    flux           = face_to_cell(grid, flat_flux)            (cell centre, pt = 1/2)
    weighted_flux  = cell_weighted_flux(flux)
    pressure       = flat_pressure.reshape(shape, order="F")
    transport_density(flat_flux, flatten=False)
    distance       = l1_dissipation(flat_flux) = Σ_c vol · transport_density[c]

on top of builder b's finite-volume model (`faceToCell`, `cellVec`, `transportDensity`, `cost`; C05/C06).
The Euclidean norm is a parameter `N`; `sqNorm` is its rational square for the driver. Core Lean only.
-/
import DarsiaModel.Transport
namespace Darsia.WAux
open Darsia

/-- centre of the reference cell: the default `pt` of `face_to_cell` -/
def center (dim : Nat) : List Rat := List.replicate dim (1 / 2)

/-- the outputs of `__call__` as functions of the cell multi-index -/
structure Out where
  flux : List Nat → Nat → Rat
  weightedFlux : List Nat → Nat → Rat
  pressure : List Nat → Rat
  density : List Nat → Rat
  distance : Rat

def callOut (N : (Nat → Rat) → Rat) (shape : List Nat) (h : List Rat) (nq : Nat) (wq : Nat → Rat)
    (ptq : Nat → List Rat) (wgt : List Nat → Nat → Rat) (x : Nat → Rat) : Out where
  flux idx a := faceToCell shape x (center shape.length) idx a
  weightedFlux idx := cellVec shape x wgt (center shape.length) idx
  pressure idx := x (numFaces shape + encF shape idx)
  density idx := transportDensity N shape nq wq ptq wgt x (encF shape idx)
  distance := cost N shape h nq wq ptq wgt x

/-- rational square of the Euclidean norm of the first `dim` components -/
def sqNorm (dim : Nat) (v : Nat → Rat) : Rat := sumTo dim fun a => v a * v a

end Darsia.WAux
