/-
Resampling primitives shared by C03 (geometric integration) and C11 (conservative resampling).
Core Lean only; exact rational arithmetic.

`areaW N M i j` is the length (in source-cell units) of the overlap of source cell `[i, i+1)` with
destination cell `[j·N/M, (j+1)·N/M)` when an axis of `N` cells is resampled to `M` cells.  It is
written as a difference of clamped break points so that sums over `j` telescope.
`areaResample1 N M f j = (M/N) · Σ_i areaW N M i j · f i` is the mean of `f` over destination cell `j`:
this is the contract of OpenCV's `INTER_AREA` for pure shrinking (box filter for integer factors) and
for pure enlargement (replication for integer factors).
-/
import DarsiaModel.Basic
namespace Darsia

/-- `Σ_{i<n} f i` -/
def sumRange : Nat → (Nat → Rat) → Rat
  | 0, _ => 0
  | n + 1, f => sumRange n f + f n

/-- sum over all multi-indices of a box, first index outermost -/
def sumBox : List Nat → (List Nat → Rat) → Rat
  | [], f => f []
  | n :: ns, f => sumRange n fun i => sumBox ns fun is => f (i :: is)

/-- clamp `x` to `[lo, hi]` -/
def clampR (lo hi x : Rat) : Rat := if x ≤ lo then lo else if hi ≤ x then hi else x

/-- break point `j·N/M` of destination cell `j` in source coordinates -/
def brk (N M j : Nat) : Rat := (j : Rat) * (N : Rat) / (M : Rat)

/-- overlap of source cell `i` with destination cell `j` (source-cell units) -/
def areaW (N M i j : Nat) : Rat :=
  clampR (i : Rat) ((i : Rat) + 1) (brk N M (j + 1)) - clampR (i : Rat) ((i : Rat) + 1) (brk N M j)

/-- area resampling of one axis (mean over the destination cell) -/
def areaResample1 (N M : Nat) (f : Nat → Rat) (j : Nat) : Rat :=
  (M : Rat) / (N : Rat) * sumRange N fun i => areaW N M i j * f i

/-- separable 2-D area resampling, `(n1, n2) → (m1, m2)` -/
def areaResize2 (n1 n2 m1 m2 : Nat) (f : Nat → Nat → Rat) (j1 j2 : Nat) : Rat :=
  areaResample1 n1 m1 (fun i1 => areaResample1 n2 m2 (fun i2 => f i1 i2) j2) j1

/-- `Π nᵢ / mᵢ` (numpy: `np.prod(np.divide(n, m))`) -/
def ratioProd : List Nat → List Nat → Rat
  | n :: ns, m :: ms => (n : Rat) / (m : Rat) * ratioProd ns ms
  | _, _ => 1

/-- componentwise integer division / multiplication of multi-indices -/
def divIdx : List Nat → List Nat → List Nat
  | i :: is, k :: ks => (i / k) :: divIdx is ks
  | _, _ => []

def mulShape : List Nat → List Nat → List Nat
  | m :: ms, k :: ks => (m * k) :: mulShape ms ks
  | _, _ => []

def allPos : List Nat → Bool
  | [] => true
  | n :: ns => decide (0 < n) && allPos ns

end Darsia
