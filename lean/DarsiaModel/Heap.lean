/-
C17 — aliasing model of `darsia.Image` and of the operations that return new images.

A Python process is a heap of numbered cells. An `Image` object is a cell holding *references*
(array, `dimensions` list, `origin` coordinate, `date`, `time`) plus immutable flags; numpy views
(`img[..., i]`, `img[voxels]`) are cells that refer to the buffer they were taken from. Every
operation mirrors the reads, allocations and writes of the anchored code (after the `fix:` commits):

* `Image.__init__` stores the array, `date` and `time` *references* it is given, copies the
  `dimensions` list (then writes `height/width/depth` into the copy) and builds a fresh `origin`;
* `metadata()` hands the same references on, so `type(self)(new_array, **self.metadata())` shares
  `date`/`time` lists with `self`;
* `copy` is `copy.deepcopy`; `__mul__`, `astype`, `weight`, comparisons work on a fresh copy and
  rebind / write only cells of that copy;
* `append` is the documented in-place operation (writes `self`, `self.date`, `self.time` cells);
* `stack` copies `images[0]` and appends to the copy.

Values are exact rationals; dtype promotion / rounding is not part of this model. `np.allclose` in the
safety checks of `append` is modelled as equality (the harness uses equal or clearly different values).
Core Lean only.
-/
import DarsiaModel.Basic
namespace Darsia.Heap
open Darsia

-- addresses are natural numbers (index into the heap)

/-- attributes of an `Image` object: references into the heap and immutable flags -/
structure ImgRec where
  arr : Nat
  dims : Nat
  origin : Nat
  date : Nat
  time : Nat
  refDate : Option Rat
  spaceDim : Nat
  series : Bool
  scalar : Bool
  timeNum : Nat
  deriving DecidableEq, Repr

inductive Val
  /-- owning ndarray, C-order flat data -/
  | arr (shape : List Nat) (data : List Rat)
  /-- ndarray view: element `k` is element `idx[k]` of the owning array at `base` -/
  | view (base : Nat) (shape : List Nat) (idx : List Nat)
  /-- python list of numbers (`dimensions`) or a `Coordinate` array (`origin`) -/
  | nums (xs : List Rat)
  /-- immutable `None` / scalar date or time -/
  | tval (x : Option Rat)
  /-- python list of dates / times (entries may be `None`) -/
  | tlist (xs : List (Option Rat))
  | img (r : ImgRec)
  /-- python list of objects (the argument of `stack`) -/
  | objs (rs : List Nat)
  deriving DecidableEq, Repr

abbrev Heap := List Val

/-- scalar type tags of the `__mul__` guard (tabulated from the running code, `DarsiaGen.Guards`) -/
inductive TyTag | int | float | bool | npFloat64 | npFloat32 | npInt64 | npUint8 | str | none
  deriving DecidableEq, Repr

def TyTag.all : List TyTag := [.int, .float, .bool, .npFloat64, .npFloat32, .npInt64, .npUint8, .str, .none]
/-- the scalar types the documentation of `Image.__mul__` names (`float or int`) and their numpy counterparts -/
def TyTag.documented : List TyTag := [.int, .float]
def TyTag.numeric : List TyTag := [.int, .float, .npFloat64, .npFloat32, .npInt64, .npUint8]

inductive Cmp | lt | gt | eq | le | ge
  deriving DecidableEq, Repr

def Cmp.eval (k : Cmp) (a b : Rat) : Rat :=
  let r : Bool := match k with
    | .lt => decide (a < b) | .gt => decide (b < a) | .eq => decide (a = b)
    | .le => decide (a ≤ b) | .ge => decide (b ≤ a)
  if r then 1 else 0

/-! ### reading the heap -/

def getImg (h : Heap) (a : Nat) : Except Err ImgRec :=
  match h[a]? with | some (.img r) => .ok r | _ => .error .type

def getNums (h : Heap) (a : Nat) : Except Err (List Rat) :=
  match h[a]? with | some (.nums xs) => .ok xs | _ => .error .type

/-- date/time attribute: the cell itself (`tval` or `tlist`) -/
def getT (h : Heap) (a : Nat) : Except Err Val :=
  match h[a]? with
  | some (.tval x) => .ok (.tval x)
  | some (.tlist xs) => .ok (.tlist xs)
  | _ => .error .type

def getObjs (h : Heap) (a : Nat) : Except Err (List Nat) :=
  match h[a]? with | some (.objs rs) => .ok rs | _ => .error .type

/-- shape and flat data of an array object, dereferencing a view -/
def readArr (h : Heap) (a : Nat) : Except Err (List Nat × List Rat) :=
  match h[a]? with
  | some (.arr s d) => .ok (s, d)
  | some (.view b s idx) =>
    match h[b]? with
    | some (.arr _ d) => .ok (s, idx.map fun i => listGetD d i 0)
    | _ => .error .type
  | _ => .error .type

/-- owning buffer and index map of an array object (views of views resolve to the owner) -/
def baseOf (h : Heap) (a : Nat) : Except Err (Nat × List Nat) :=
  match h[a]? with
  | some (.arr _ d) => .ok (a, List.range d.length)
  | some (.view b _ idx) => .ok (b, idx)
  | _ => .error .type

/-- `Image._is_none` -/
def isNoneT : Val → Bool
  | .tval none => true
  | .tlist xs => xs.contains none
  | _ => false

/-! ### array layout: shape = spatial ++ [T if series] ++ channels; element (s,t,c) at (s*T+t)*C+c -/

def spaceNum (r : ImgRec) (shape : List Nat) : Nat := prodL (shape.take r.spaceDim)
def chanShape (r : ImgRec) (shape : List Nat) : List Nat :=
  shape.drop (r.spaceDim + (if r.series then 1 else 0))
def chanNum (r : ImgRec) (shape : List Nat) : Nat := prodL (chanShape r shape)

/-- flat indices of time slice `t` of an array with `S` space points, `T` times, `C` channels -/
def sliceIdx (S T C t : Nat) : List Nat :=
  (List.range S).flatMap fun s => (List.range C).map fun c => (s * T + t) * C + c

/-- flat indices of the time interval `[lo, hi)` -/
def intervalIdx (S T C lo hi : Nat) : List Nat :=
  (List.range S).flatMap fun s => (List.range (hi - lo)).flatMap fun t =>
    (List.range C).map fun c => (s * T + (lo + t)) * C + c

/-- `np.stack(slices, axis=space_dim)`: slices of `S*C` entries each become the time axis -/
def stackSlices (S C : Nat) (slices : List (List Rat)) : List Rat :=
  (List.range S).flatMap fun s => slices.flatMap fun sl =>
    (List.range C).map fun c => listGetD sl (s * C + c) 0

/-- multi-indices (C order) of the box `ranges` inside `shape` (spatial part), then flat index with
`inner` trailing entries per spatial point -/
def boxIdx : List Nat → List (Nat × Nat) → List Nat
  | [], _ => [0]
  | _ :: _, [] => [0]
  | n :: ns, (lo, hi) :: rs =>
    (List.range (min hi n - lo)).flatMap fun i => (boxIdx ns rs).map fun k => (lo + i) * prodL ns + k

def subIdx (spatial : List Nat) (ranges : List (Nat × Nat)) (inner : Nat) : List Nat :=
  (boxIdx spatial ranges).flatMap fun p => (List.range inner).map fun c => p * inner + c

def subShape : List Nat → List (Nat × Nat) → List Nat
  | n :: ns, (lo, hi) :: rs => (min hi n - lo) :: subShape ns rs
  | ns, _ => ns

/-! ### constructor -/

structure CtorArgs where
  arr : Nat
  spaceDim : Nat
  /-- `dimensions=` : the caller's list object -/
  dims : Option Nat
  height : Option Rat
  width : Option Rat
  depth : Option Rat
  /-- `origin=` : the caller's object (list / Coordinate) -/
  origin : Option Nat
  /-- value of the default origin (coordinate conventions: C20/C01, a parameter here) -/
  defOrigin : List Rat
  series : Bool
  scalar : Bool
  date : Option Nat
  refDate : Option Rat
  time : Option Nat
  deriving Repr

def setOpt (xs : List Rat) (i : Nat) : Option Rat → Except Err (List Rat)
  | none => .ok xs
  | some v => if i < xs.length then .ok (xs.set i v) else .error .index

/-- relative times from dates: `(date[i] - reference_date).total_seconds()` -/
def timesFromDates (ref : Option Rat) (xs : List (Option Rat)) : Except Err (List (Option Rat)) :=
  xs.mapM fun d => match d, ref with
    | some d, some r => .ok (some (d - r))
    | _, _ => .error .type

/-- `Image.set_time(None)` for the given date value: the new `time` cell -/
def timeFromDate (series : Bool) (timeNum : Nat) (ref : Option Rat) (date : Val) : Except Err Val :=
  if series then
    if isNoneT date then .ok (.tlist (List.replicate timeNum none))
    else match date with
      | .tlist xs =>
        if xs.length < timeNum then .error .index else do
          let ts ← timesFromDates ref (xs.take timeNum)
          pure (.tlist ts)
      | _ => .error .type
  else
    if isNoneT date then .ok (.tval none)
    else match date, ref with
      | .tval (some d), some r => .ok (.tval (some (d - r)))
      | _, _ => .error .type

/-- `self.dimensions = list(kwargs.get("dimensions", space_dim * [1]))` (fixed code: a copy), then
`height`, `width`, `depth` written into it -/
def ctorDims (h : Heap) (c : CtorArgs) : Except Err (List Rat) := do
  let d0 ← match c.dims with
    | some a => getNums h a
    | none => pure (List.replicate c.spaceDim 1)
  let d1 ← setOpt d0 0 c.height
  let d2 ← setOpt d1 1 c.width
  setOpt d2 2 c.depth

/-- `self.origin = Coordinate(np.array(kwargs.pop("origin", default_origin)))` : always a new array -/
def ctorOrigin (h : Heap) (c : CtorArgs) : Except Err (List Rat) :=
  match c.origin with
  | some a => getNums h a
  | none => pure c.defOrigin

def ctorTimeNum (c : CtorArgs) (shape : List Nat) : Except Err Nat :=
  if c.series then
    match shape[c.spaceDim]? with | some t => .ok t | none => .error .index
  else .ok 1

/-- `date`: the given reference is kept; the default is a new object (allocated at `n + 2`) -/
def ctorDate (h : Heap) (c : CtorArgs) (timeNum : Nat) : Except Err (List Val × Nat × Val) :=
  match c.date with
  | some a => match getT h a with
    | .ok v => .ok ([], a, v)
    | .error e => .error e
  | none =>
    let v := if c.series then Val.tlist (List.replicate timeNum none) else Val.tval none
    .ok ([v], h.length + 2, v)

def ctorRefDate (c : CtorArgs) (dateVal : Val) : Option Rat :=
  match c.refDate with
  | some r => some r
  | none => match dateVal with
    | .tlist xs => (xs.head?).join
    | .tval x => x
    | _ => none

/-- `time`: the given reference is kept (`set_time(time)`), otherwise computed from the dates -/
def ctorTime (h : Heap) (c : CtorArgs) (timeNum : Nat) (refDate : Option Rat) (dateVal : Val) (n2 : Nat) :
    Except Err (List Val × Nat) :=
  match c.time with
  | some a => match getT h a with
    | .ok _ => .ok ([], a)
    | .error e => .error e
  | none => match timeFromDate c.series timeNum refDate dateVal with
    | .ok v => .ok ([v], n2)
    | .error e => .error e

/-- final safety checks on the shape -/
def ctorCheck (c : CtorArgs) (shape : List Nat) : Except Err Unit :=
  if c.scalar && decide (shape.length ≠ c.spaceDim + (if c.series then 1 else 0)) then .error .assertion
  else if decide (shape.length < c.spaceDim + (if c.series then 1 else 0)) then .error .assertion
  else .ok ()

/-- the cells `Image.__init__` allocates; the last one is the new object.
Layout of the allocation: dims, origin, [date], [time], image. -/
def ctorPlan (h : Heap) (c : CtorArgs) : Except Err (List Val) := do
  let sd ← readArr h c.arr
  let d ← ctorDims h c
  let o ← ctorOrigin h c
  let timeNum ← ctorTimeNum c sd.1
  let dt ← ctorDate h c timeNum
  let refDate := ctorRefDate c dt.2.2
  let tm ← ctorTime h c timeNum refDate dt.2.2 (h.length + 2 + dt.1.length)
  let _ ← ctorCheck c sd.1
  pure ([.nums d, .nums o] ++ dt.1 ++ tm.1 ++
    [.img { arr := c.arr, dims := h.length, origin := h.length + 1, date := dt.2.1, time := tm.2,
            refDate := refDate, spaceDim := c.spaceDim, series := c.series, scalar := c.scalar,
            timeNum := timeNum }])

/-- `type(self)(img=newArr, **metadata)` where `metadata = self.metadata()` with some entries replaced -/
def fromMeta (r : ImgRec) (arr : Nat) (dateA timeA : Nat) (series : Bool) : CtorArgs :=
  { arr := arr, spaceDim := r.spaceDim, dims := some r.dims, height := none, width := none, depth := none,
    origin := some r.origin, defOrigin := [], series := series, scalar := r.scalar,
    date := some dateA, refDate := r.refDate, time := some timeA }

/-! ### the operations returning new objects -/

inductive Op
  | ctor (c : CtorArgs)
  | copy (a : Nat)
  | add (a b : Nat)
  | sub (a b : Nat)
  | mul (a : Nat) (t : TyTag) (s : Rat)
  | cmpImg (k : Cmp) (a b : Nat)
  | cmpNum (k : Cmp) (a : Nat) (s : Rat)
  | astype (a : Nat)
  | timeSlice (a : Nat) (i : Nat)
  | timeInterval (a : Nat) (lo hi : Nat)
  | subregion (a : Nat) (ranges : List (Nat × Nat)) (newDims newOrigin : List Rat)
  | weightNum (a : Nat) (w : Rat)
  | weightImg (a w : Nat) (resized : List Rat)
  | stack (l : Nat)
  /-- `c = a.copy(); c.img = <new array>`: `img_as`, `astype(<numpy type>)`, `to_trichromatic(.., return_image=True)`,
  `ClipModel(image)`, `TVD(image)` — the new array is the business of skimage / cv2 / numpy (a parameter) -/
  | copyRebind (a : Nat) (shape : List Nat) (vals : List Rat)
  /-- `type(a)(<new array>, **a.metadata())`: `resize`, `Resize.__call__`, `uniform_refinement`,
  `equalize_voxel_size`, `zeros_like / ones_like (mode="shape")` -/
  | derive (a : Nat) (shape : List Nat) (vals : List Rat)
  /-- `astype(<Image class>)`: `data_type(img=self.img.copy(), **self.metadata())` -/
  | astypeClass (a : Nat) (forceScalar : Bool)
  /-- `to_monochromatic(key)`: on a deep copy; a channel key gives a *view* of the (converted) array of the
  copy, `gray` a new array; `conv` = the converted array (channel keys) resp. the gray array -/
  | toMono (a : Nat) (chan : Option Nat) (conv : List Rat)
  /-- `reduce_axis(a, axis)`: new array (parameter), `dimensions.copy()` minus the axis, new origin (parameter) -/
  | reduceAxis (a : Nat) (axis : Nat) (shape : List Nat) (vals : List Rat) (newOrigin : List Rat)
  /-- `extrude_along_axis(a, height, num)` -/
  | extrude (a : Nat) (height : Rat) (num : Nat) (newOrigin : List Rat)
  /-- `superpose(images)`: new array (warping is cv2's business), new dimensions / origin, date and time of `images[0]` -/
  | superpose (l : Nat) (shape : List Nat) (vals : List Rat) (newDims newOrigin : List Rat)
  /-- calls that only read images and return a number: `Geometry.integrate`, `EMD()(a, b)` -/
  | measure (args : List Nat) (v : Rat)
  /-- model `__call__` on a raw array (`LinearModel`, `ClipModel`): a new array of the same shape -/
  | arrMap (a : Nat) (vals : List Rat)
  deriving Repr

/-- the arguments (heap objects) of a call -/
def Op.args : Op → List Nat
  | .ctor c => [c.arr] ++ c.dims.toList ++ c.origin.toList ++ c.date.toList ++ c.time.toList
  | .copy a | .astype a | .mul a _ _ | .cmpNum _ a _ | .timeSlice a _ | .timeInterval a _ _
  | .subregion a _ _ _ | .weightNum a _ => [a]
  | .add a b | .sub a b | .cmpImg _ a b | .weightImg a b _ => [a, b]
  | .stack l | .superpose l _ _ _ _ => [l]
  | .copyRebind a _ _ | .derive a _ _ | .astypeClass a _ | .toMono a _ _ | .reduceAxis a _ _ _ _
  | .extrude a _ _ _ | .arrMap a _ => [a]
  | .measure args _ => args

/-- cells of a deep copy of image `a`, allocated at `n ..`: array, dims, origin, date, time, image -/
def copyCells (h : Heap) (n : Nat) (a : Nat) : Except Err (List Val) := do
  let r ← getImg h a
  let (s, d) ← readArr h r.arr
  let xs ← getNums h r.dims
  let os ← getNums h r.origin
  let dt ← getT h r.date
  let tm ← getT h r.time
  pure [.arr s d, .nums xs, .nums os, dt, tm,
        .img { r with arr := n, dims := n + 1, origin := n + 2, date := n + 3, time := n + 4 }]

/-- the safety checks of `Image.append` (all `assert`s; `np.allclose` modelled as equality) -/
def appendChecks (rs ri : ImgRec) (ss is' : List Nat) (dS dI : Val) (dimsS dimsI oS oI : List Rat) :
    Except Err Unit := do
  if rs.spaceDim ≠ ri.spaceDim then throw .assertion
  if rs.scalar ≠ ri.scalar then throw .assertion
  if ss.take rs.spaceDim ≠ is'.take ri.spaceDim then throw .assertion
  if !(isNoneT dS) && !(isNoneT dI) then
    let last := match dS with | .tlist xs => xs.getLast?.join | .tval x => x | _ => none
    let first := match dI with | .tlist xs => xs.head?.join | .tval x => x | _ => none
    match last, first with
    | some a, some b => if ¬ a < b then throw .assertion
    | _, _ => throw .type
  if dimsS ≠ dimsI then throw .assertion
  if oS ≠ oI then throw .assertion

/-- date update of `append`: `if not isinstance(self.date, list): self.date = [self.date]`, then
`self.date = self.date + image.date` / `self.date + [image.date]` — always a NEW list (the old one may be shared
with other images through `metadata()`). Returns the heap, the address of `self.date` afterwards and its value. -/
def appendDate (h1 : Heap) : Val → Val → Except Err (Heap × Nat × Val)
  | .tlist xs, .tlist ys => .ok (h1 ++ [.tlist (xs ++ ys)], h1.length, .tlist (xs ++ ys))
  | .tval x, .tlist ys => .ok (h1 ++ [.tlist ([x] ++ ys)], h1.length, .tlist ([x] ++ ys))
  | .tlist xs, .tval y => .ok (h1 ++ [.tlist (xs ++ [y])], h1.length, .tlist (xs ++ [y]))
  | .tval x, .tval y => .ok (h1 ++ [.tlist [x, y]], h1.length, .tlist [x, y])
  | _, _ => .error .type

/-- relative-time update of `append`, then `set_time(time)`; the combined list is always a new object.
`datesAvail` = neither the combined `self.date` nor `image.date` contains `None`. Without an offset, images
that carry only relative times keep them. -/
def appendTime (h2 : Heap) (tS tI : Val) (offset : Option Rat) (timeNum : Nat)
    (refDate : Option Rat) (dateV : Val) (datesAvail : Bool) : Except Err (Heap × Nat) :=
  if isNoneT tS || isNoneT tI || (offset.isNone && datesAvail) then
    match timeFromDate true timeNum refDate dateV with
    | .ok v => .ok (h2 ++ [v], h2.length)
    | .error e => .error e
  else
    let off := offset.getD 0
    match tS, tI with
    | .tlist xs, .tlist ys => .ok (h2 ++ [.tlist (xs ++ ys.map fun t => t.map (· + off))], h2.length)
    | .tval x, .tlist ys => .ok (h2 ++ [.tlist ([x] ++ ys.map fun t => t.map (· + off))], h2.length)
    | .tlist xs, .tval y => .ok (h2 ++ [.tlist (xs ++ [y.map (· + off)])], h2.length)
    | .tval x, .tval y => .ok (h2 ++ [.tlist [x, y.map (· + off)]], h2.length)
    | _, _ => .error .type

/-- the stacked array of `append`: slices of `self` then of `image` along a new time axis -/
def appendArr (rs ri : ImgRec) (ss : List Nat) (sd id' : List Rat) : Val :=
  let S := spaceNum rs ss
  let C := chanNum rs ss
  let slicesOf := fun (r : ImgRec) (d : List Rat) =>
    if r.series then (List.range r.timeNum).map fun t => (sliceIdx S r.timeNum C t).map fun k => listGetD d k 0
    else [d]
  let slices := slicesOf rs sd ++ slicesOf ri id'
  .arr (ss.take rs.spaceDim ++ [slices.length] ++ chanShape rs ss) (stackSlices S C slices)

/-- what `append` reads -/
structure AppendIn where
  rs : ImgRec
  ri : ImgRec
  newArr : Val
  dS : Val
  dI : Val
  tS : Val
  tI : Val

def appendRead (h : Heap) (s i : Nat) : Except Err AppendIn := do
  let rs ← getImg h s
  let ri ← getImg h i
  let (ss, sd) ← readArr h rs.arr
  let (is', id') ← readArr h ri.arr
  let dS ← getT h rs.date
  let dI ← getT h ri.date
  let dimsS ← getNums h rs.dims
  let dimsI ← getNums h ri.dims
  let oS ← getNums h rs.origin
  let oI ← getNums h ri.origin
  appendChecks rs ri ss is' dS dI dimsS dimsI oS oI
  let tS ← getT h rs.time
  let tI ← getT h ri.time
  pure { rs := rs, ri := ri, newArr := appendArr rs ri ss sd id', dS := dS, dI := dI, tS := tS, tI := tI }

/-- `Image.append(self, image, offset)`: the in-place operation. Writes the cell `self` (attributes
rebound) and nothing else; the stacked array and the combined date / time lists are new objects. -/
def append (h : Heap) (s i : Nat) (offset : Option Rat) : Except Err Heap :=
  match appendRead h s i with
  | .error e => .error e
  | .ok x =>
    match appendDate (h ++ [x.newArr]) x.dS x.dI with
    | .error e => .error e
    | .ok (h2, dateA, dateV) =>
      match appendTime h2 x.tS x.tI offset (x.rs.timeNum + x.ri.timeNum) x.rs.refDate dateV
          (!(isNoneT dateV) && !(isNoneT x.dI)) with
      | .error e => .error e
      | .ok (h3, timeA) =>
        .ok (h3.set s (.img { x.rs with arr := h.length, series := true, date := dateA, time := timeA,
                                        timeNum := x.rs.timeNum + x.ri.timeNum }))

/-- `for i in range(1, len(images)): image.append(images[i])` -/
def appendAll (h : Heap) (s : Nat) : List Nat → Except Err Heap
  | [] => .ok h
  | i :: is => do let h1 ← append h s i none; appendAll h1 s is

/-- result of a comparison / arithmetic on flat data -/
def zipData (f : Rat → Rat → Rat) (a b : List Rat) : List Rat := List.zipWith f a b

/-- `self.date[i]` / `self.time[i]` (`time_slice`; `self.time is None` is tolerated for the time) -/
def pickT (allowNone : Bool) : Val → Nat → Except Err Val
  | .tlist xs, i => match xs[i]? with | some x => .ok (.tval x) | none => .error .index
  | .tval none, _ => if allowNone then .ok (.tval none) else .error .type
  | _, _ => .error .type

/-- `self.date[lo:hi]` / `self.time[lo:hi]` (`time_interval`): a new list -/
def sliceT : Val → Nat → Nat → Except Err Val
  | .tlist xs, lo, hi => .ok (.tlist ((xs.take hi).drop lo))
  | _, _, _ => .error .type

def seriesOff (r : ImgRec) : Nat := if r.series then 1 else 0
def frames (r : ImgRec) : Nat := if r.series then r.timeNum else 1

/-- One call: new heap and the address of the returned object. `guard` is the tabulated type guard
of `__mul__`. -/
def step (guard : TyTag → Except Err Unit) (h : Heap) : Op → Except Err (Heap × Nat)
  | .ctor c => do
    let cells ← ctorPlan h c
    pure (h ++ cells, h.length + cells.length - 1)
  | .copy a => do
    let cells ← copyCells h h.length a
    pure (h ++ cells, h.length + 5)
  | .add a b => do
    let ra ← getImg h a; let rb ← getImg h b
    let (sa, da) ← readArr h ra.arr; let (sb, db) ← readArr h rb.arr
    if sa ≠ sb then throw .value
    let h1 := h ++ [.arr sa (zipData (· + ·) da db)]
    let cells ← ctorPlan h1 (fromMeta ra h.length ra.date ra.time ra.series)
    pure (h1 ++ cells, h1.length + cells.length - 1)
  | .sub a b => do
    let ra ← getImg h a; let rb ← getImg h b
    let (sa, da) ← readArr h ra.arr; let (sb, db) ← readArr h rb.arr
    if sa ≠ sb then throw .value
    let h1 := h ++ [.arr sa (zipData (· - ·) da db)]
    let cells ← ctorPlan h1 (fromMeta ra h.length ra.date ra.time ra.series)
    pure (h1 ++ cells, h1.length + cells.length - 1)
  | .mul a t s => do
    match guard t with
    | .error _ => throw .value
    | .ok _ => pure ()
    let n := h.length
    let cells ← copyCells h n a
    let h1 := h ++ cells
    -- result_image.img = result_image.img * scalar  (new array, attribute of the copy rebound)
    let r ← getImg h1 (n + 5)
    let (sh, d) ← readArr h1 r.arr
    let h2 := h1 ++ [.arr sh (d.map (· * s))]
    pure (h2.set (n + 5) (.img { r with arr := h1.length }), n + 5)
  | .cmpImg k a b => do
    let ra ← getImg h a; let rb ← getImg h b
    let (sa, da) ← readArr h ra.arr; let (sb, db) ← readArr h rb.arr
    -- zeros_like(self, mode="voxels"): ScalarImage(np.zeros(num_voxels), **self.metadata())
    let h1 := h ++ [.arr (sa.take ra.spaceDim) (List.replicate (spaceNum ra sa) 0)]
    let cells ← ctorPlan h1 { fromMeta ra h.length ra.date ra.time ra.series with scalar := true }
    let h2 := h1 ++ cells
    let res := h2.length - 1
    let r ← getImg h2 res
    if sa ≠ sb then throw .value
    let h3 := h2 ++ [.arr sa (zipData k.eval da db)]
    pure (h3.set res (.img { r with arr := h2.length }), res)
  | .cmpNum k a s => do
    let ra ← getImg h a
    let (sa, da) ← readArr h ra.arr
    let h1 := h ++ [.arr (sa.take ra.spaceDim) (List.replicate (spaceNum ra sa) 0)]
    let cells ← ctorPlan h1 { fromMeta ra h.length ra.date ra.time ra.series with scalar := true }
    let h2 := h1 ++ cells
    let res := h2.length - 1
    let r ← getImg h2 res
    let h3 := h2 ++ [.arr sa (da.map fun x => k.eval x s)]
    pure (h3.set res (.img { r with arr := h2.length }), res)
  | .astype a => do
    let n := h.length
    let cells ← copyCells h n a
    let h1 := h ++ cells
    let r ← getImg h1 (n + 5)
    let (sh, d) ← readArr h1 r.arr
    let h2 := h1 ++ [.arr sh d]
    pure (h2.set (n + 5) (.img { r with arr := h1.length }), n + 5)
  | .timeSlice a i => do
    let r ← getImg h a
    if !r.series then throw .value
    let (sh, _) ← readArr h r.arr
    let (base, idx) ← baseOf h r.arr
    if i ≥ r.timeNum then throw .index
    let S := spaceNum r sh; let C := chanNum r sh
    let vidx := (sliceIdx S r.timeNum C i).map fun k => listGetD idx k 0
    let dt ← getT h r.date
    let tm ← getT h r.time
    let dv ← pickT false dt i
    let tv ← pickT true tm i
    let n := h.length
    let h1 := h ++ [.view base (sh.take r.spaceDim ++ chanShape r sh) vidx, dv, tv]
    let cells ← ctorPlan h1 (fromMeta r n (n + 1) (n + 2) false)
    pure (h1 ++ cells, h1.length + cells.length - 1)
  | .timeInterval a lo hi => do
    let r ← getImg h a
    if !r.series then throw .value
    let (sh, _) ← readArr h r.arr
    let (base, idx) ← baseOf h r.arr
    let hi := min hi r.timeNum
    let S := spaceNum r sh; let C := chanNum r sh
    let vidx := (intervalIdx S r.timeNum C lo hi).map fun k => listGetD idx k 0
    let dt ← getT h r.date
    let tm ← getT h r.time
    let dv ← sliceT dt lo hi
    let tv ← sliceT tm lo hi
    let n := h.length
    let h1 := h ++ [.view base (sh.take r.spaceDim ++ [hi - lo] ++ chanShape r sh) vidx, dv, tv]
    let cells ← ctorPlan h1 (fromMeta r n (n + 1) (n + 2) true)
    pure (h1 ++ cells, h1.length + cells.length - 1)
  | .subregion a ranges newDims newOrigin => do
    let r ← getImg h a
    let (sh, _) ← readArr h r.arr
    let (base, idx) ← baseOf h r.arr
    if ranges.length ≠ r.spaceDim then throw .assertion
    let spatial := sh.take r.spaceDim
    let inner := prodL (sh.drop r.spaceDim)
    let vidx := (subIdx spatial ranges inner).map fun k => listGetD idx k 0
    let n := h.length
    -- metadata["dimensions"] = <new list>; metadata["origin"] = <new coordinate>
    let h1 := h ++ [.view base (subShape spatial ranges ++ sh.drop r.spaceDim) vidx, .nums newDims, .nums newOrigin]
    let cells ← ctorPlan h1 { fromMeta r n r.date r.time r.series with dims := some (n + 1), origin := some (n + 2) }
    pure (h1 ++ cells, h1.length + cells.length - 1)
  | .weightNum a w => do
    let n := h.length
    let cells ← copyCells h n a
    let h1 := h ++ cells
    -- weighted_img.img *= weight : in place on the array of the copy
    let r ← getImg h1 (n + 5)
    let (sh, d) ← readArr h1 r.arr
    pure (h1.set r.arr (.arr sh (d.map (· * w))), n + 5)
  | .weightImg a w resized => do
    let n := h.length
    let cells ← copyCells h n a
    let h1 := h ++ cells
    let ra ← getImg h1 a
    let rw ← getImg h1 w
    let (sa, da) ← readArr h1 ra.arr
    let (sw, dw) ← readArr h1 rw.arr
    if sw.length ≠ ra.spaceDim then throw .assertion
    -- fixed code: a resized *local* weight array (cv2.resize is a parameter: `resized`)
    let wdata ← if sa.take ra.spaceDim ≠ sw then
        (if ra.spaceDim = 2 then pure resized else throw .notImpl)
      else pure dw
    if wdata.length ≠ spaceNum ra sa then throw .value
    let inner := prodL (sa.drop ra.spaceDim)
    if inner ≠ 1 then throw .value
    let r ← getImg h1 (n + 5)
    let h2 := h1 ++ [.arr sa (zipData (· * ·) da wdata)]
    pure (h2.set (n + 5) (.img { r with arr := h1.length }), n + 5)
  | .stack l => do
    let ims ← getObjs h l
    match ims with
    | [] => throw .index
    | first :: rest =>
      let n := h.length
      let cells ← copyCells h n first
      let h1 ← appendAll (h ++ cells) (n + 5) rest
      pure (h1, n + 5)
  | .copyRebind a shape vals => do
    let n := h.length
    let cells ← copyCells h n a
    let h1 := h ++ cells
    let r ← getImg h1 (n + 5)
    let h2 := h1 ++ [.arr shape vals]
    pure (h2.set (n + 5) (.img { r with arr := h1.length }), n + 5)
  | .derive a shape vals => do
    let ra ← getImg h a
    let h1 := h ++ [.arr shape vals]
    let cells ← ctorPlan h1 (fromMeta ra h.length ra.date ra.time ra.series)
    pure (h1 ++ cells, h1.length + cells.length - 1)
  | .astypeClass a forceScalar => do
    let ra ← getImg h a
    let (sh, d) ← readArr h ra.arr
    let h1 := h ++ [.arr sh d]
    let cells ← ctorPlan h1 { fromMeta ra h.length ra.date ra.time ra.series with scalar := forceScalar || ra.scalar }
    pure (h1 ++ cells, h1.length + cells.length - 1)
  | .toMono a chan conv => do
    let n := h.length
    let cells ← copyCells h n a
    let h1 := h ++ cells
    let r ← getImg h1 (n + 5)
    let (sh, _) ← readArr h1 r.arr
    if r.scalar then throw .assertion
    let C := chanNum r sh
    let P := spaceNum r sh * frames r
    let outShape := sh.take (r.spaceDim + seriesOff r)
    match chan with
    | some k =>
      -- image.to_trichromatic(..) in place on the copy: image.img rebound to a new array; then image.img[..., k]
      let h2 := (h1 ++ [Val.arr sh conv]).set (n + 5) (.img { r with arr := h1.length })
      let h3 := h2 ++ [.view h1.length outShape ((List.range P).map fun p => p * C + k)]
      let cells2 ← ctorPlan h3 { fromMeta { r with arr := h1.length } h2.length r.date r.time r.series with scalar := true }
      pure (h3 ++ cells2, h3.length + cells2.length - 1)
    | none =>
      let h3 := h1 ++ [.arr outShape conv]
      let cells2 ← ctorPlan h3 { fromMeta r h1.length r.date r.time r.series with scalar := true }
      pure (h3 ++ cells2, h3.length + cells2.length - 1)
  | .reduceAxis a axis shape vals newOrigin => do
    let r ← getImg h a
    let dims ← getNums h r.dims
    if axis ≥ r.spaceDim then throw .assertion
    let n := h.length
    -- new_dimensions = img.dimensions.copy(); new_dimensions.pop(index)
    let h1 := h ++ [.arr shape vals, .nums (dims.eraseIdx axis), .nums newOrigin]
    let cells ← ctorPlan h1 { fromMeta r n r.date r.time r.series with
                               spaceDim := r.spaceDim - 1, dims := some (n + 1), origin := some (n + 2) }
    pure (h1 ++ cells, h1.length + cells.length - 1)
  | .extrude a height num newOrigin => do
    let r ← getImg h a
    let (sh, d) ← readArr h r.arr
    let dims ← getNums h r.dims
    if r.spaceDim ≠ 2 then throw .assertion
    let n := h.length
    let h1 := h ++ [.arr (num :: sh) ((List.replicate num d).flatten), .nums (height :: dims), .nums newOrigin]
    let cells ← ctorPlan h1 { fromMeta r n r.date r.time r.series with
                               spaceDim := 3, dims := some (n + 1), origin := some (n + 2) }
    pure (h1 ++ cells, h1.length + cells.length - 1)
  | .superpose l shape vals newDims newOrigin => do
    let ims ← getObjs h l
    match ims with
    | [] => throw .index
    | first :: rest =>
      let r0 ← getImg h first
      let rs ← rest.mapM (getImg h)
      if rs.any (fun r => r.spaceDim ≠ r0.spaceDim || r.series ≠ r0.series || r.scalar ≠ r0.scalar || r.timeNum ≠ r0.timeNum) then
        throw .assertion
      if r0.spaceDim ≠ 2 then throw .notImpl
      if !r0.scalar then throw .notImpl
      let n := h.length
      let h1 := h ++ [.arr shape vals, .nums newDims, .nums newOrigin]
      let cells ← ctorPlan h1 { arr := n, spaceDim := 2, dims := some (n + 1), height := none, width := none, depth := none,
                                origin := some (n + 2), defOrigin := [], series := r0.series, scalar := true,
                                date := some r0.date, refDate := none, time := some r0.time }
      pure (h1 ++ cells, h1.length + cells.length - 1)
  | .measure args v => do
    let _ ← args.mapM (getImg h)
    pure (h ++ [.tval (some v)], h.length)
  | .arrMap a vals => do
    let (sh, _) ← readArr h a
    pure (h ++ [.arr sh vals], h.length)

/-! ### in-place operations a user may apply to a result afterwards -/

/-- `img.img[...] = values`: writes *through* the array object of the image — into the owning buffer when the
array is a view -/
def writePixels (h : Heap) (s : Nat) (vals : List Rat) : Except Err Heap := do
  let r ← getImg h s
  match h[r.arr]? with
  | some (.arr sh d) => if vals.length = d.length then pure (h.set r.arr (.arr sh vals)) else throw .value
  | some (.view b _ idx) =>
    match h[b]? with
    | some (.arr bs bd) =>
      if vals.length = idx.length then
        pure (h.set b (.arr bs ((idx.zip vals).foldl (fun acc p => acc.set p.1 p.2) bd)))
      else throw .value
    | _ => throw .type
  | _ => throw .type

/-- `img.to_trichromatic(cs)` (in place) / `img.img = <new array>`: the attribute of `s` is rebound -/
def rebindImg (h : Heap) (s : Nat) (shape : List Nat) (vals : List Rat) : Except Err Heap := do
  let r ← getImg h s
  pure ((h ++ [Val.arr shape vals]).set s (.img { r with arr := h.length }))

/-- a chain of calls on shared operands -/
def run (guard : TyTag → Except Err Unit) : Heap → List Op → Except Err Heap
  | h, [] => .ok h
  | h, op :: ops => do let (h1, _) ← step guard h op; run guard h1 ops

/-! ### references, well-formed heaps, reachability -/

def Val.refs : Val → List Nat
  | .view b _ _ => [b]
  | .img r => [r.arr, r.dims, r.origin, r.date, r.time]
  | .objs rs => rs
  | _ => []

/-- every reference stored in the heap points into the heap -/
def WF (h : Heap) : Prop := ∀ (a : Nat) (v : Val), h[a]? = some v → ∀ b ∈ v.refs, b < h.length

/-- `Reach h a b`: object `b` is reachable from object `a` through stored references -/
inductive Reach (h : Heap) : Nat → Nat → Prop
  | refl (a) : Reach h a a
  | step {a b c v} : h[a]? = some v → b ∈ v.refs → Reach h b c → Reach h a c

def recOf (h : Heap) (a : Nat) : Option ImgRec := (getImg h a).toOption

/-- the buffer an array object reads from -/
def baseCell (h : Heap) (a : Nat) : List Nat :=
  match h[a]? with
  | some (.view b _ _) => [b]
  | some (.arr _ _) => [a]
  | _ => []

/-- **Documented sharing**: the pre-existing objects a result may refer to.
* the constructor wraps the array object, the `date` and the `time` object it is given;
* everything built with `type(self)(new_array, **self.metadata())` shares the `date` / `time` objects of `self`
  (lists for series) — `dimensions` is copied by the constructor, `origin` is rebuilt;
* `time_slice`, `time_interval`, `subregion` return numpy *views* of the argument's pixel buffer;
* `superpose` takes `date` / `time` from `images[0]`;
* all other modelled calls return objects that share nothing with their arguments. -/
def Op.shared (h : Heap) : Op → List Nat
  | .ctor c => [c.arr] ++ c.date.toList ++ c.time.toList
  | .add a _ | .sub a _ | .cmpImg _ a _ | .cmpNum _ a _ | .derive a _ _ | .astypeClass a _
  | .reduceAxis a _ _ _ _ | .extrude a _ _ _ =>
    match recOf h a with | some r => [r.date, r.time] | none => []
  | .timeSlice a _ | .timeInterval a _ _ =>
    match recOf h a with | some r => baseCell h r.arr | none => []
  | .subregion a _ _ _ =>
    match recOf h a with | some r => baseCell h r.arr ++ [r.date, r.time] | none => []
  | .superpose l _ _ _ _ =>
    match getObjs h l with
    | .ok (f :: _) => (match recOf h f with | some r => [r.date, r.time] | none => [])
    | _ => []
  | _ => []

/-- calls whose result shares no pixel buffer with an argument (a later `result.img[...] = v` cannot reach one) -/
def Op.returnsCopy : Op → Bool
  | .ctor _ | .timeSlice _ _ | .timeInterval _ _ _ | .subregion _ _ _ _ => false
  | _ => true

/-- new cells only refer to new cells or to the documented shared cells `S` -/
def Fresh (n : Nat) (h' : Heap) (S : List Nat) : Prop :=
  ∀ a v, n ≤ a → h'[a]? = some v → ∀ b ∈ v.refs, n ≤ b ∨ b ∈ S

/-- a date / time object -/
def Val.isT : Val → Bool
  | .tval _ | .tlist _ => true
  | _ => false

/-- typing of the heap: `date` and `time` of every image object are date / time objects, and a numpy view refers
to an owning array -/
def Typed (h : Heap) : Prop :=
  (∀ (a : Nat) (r : ImgRec), h[a]? = some (Val.img r) →
    (∃ v : Val, h[r.date]? = some v ∧ v.isT = true) ∧ (∃ v : Val, h[r.time]? = some v ∧ v.isT = true)) ∧
  (∀ (a b : Nat) (sh idx : List Nat), h[a]? = some (Val.view b sh idx) →
    ∃ (s : List Nat) (d : List Rat), h[b]? = some (Val.arr s d))

/-- all cells of `h` are still there, unchanged, in `h'` -/
def Frame (h h' : Heap) : Prop := h.length ≤ h'.length ∧ ∀ a, a < h.length → h'[a]? = h[a]?

/-! ### the code before the `fix:` commits (kept to show that the theorems discriminate) -/
namespace Before

/-- constructor storing the caller's `dimensions` list and writing `height` into it -/
def ctorHeight (h : Heap) (arr dims : Nat) (height : Rat) : Except Err Heap := do
  let xs ← getNums h dims
  let xs' ← setOpt xs 0 (some height)
  pure ((h.set dims (.nums xs')) ++ [.nums [0, height], .tval none, .tval none,
    .img { arr := arr, dims := dims, origin := h.length, date := h.length + 1, time := h.length + 2,
           refDate := none, spaceDim := 2, series := false, scalar := true, timeNum := 1 }])

/-- `stack` appending to `images[0]` itself -/
def stack (h : Heap) (l : Nat) : Except Err (Heap × Nat) := do
  let ims ← getObjs h l
  match ims with
  | [] => throw .index
  | first :: rest => do let h1 ← appendAll h first rest; pure (h1, first)

/-- `weight` rebinding `weight.img` to the resized array -/
def weightImg (h : Heap) (w : Nat) (shape : List Nat) (resized : List Rat) : Except Err Heap := do
  let rw ← getImg h w
  pure ((h ++ [Val.arr shape resized]).set w (.img { rw with arr := h.length }))

end Before

end Darsia.Heap

namespace Darsia.Heap

/-! ### write sets of the source functions (tie to the code: `DarsiaGen.WriteSets`, extracted from the AST)

For every DarSIA function the model covers: which objects *owned by the caller* (the parameters, `self` included,
anything aliased to them by plain assignment / attribute / subscript / `kwargs.get`, and the global numpy RNG) it
may write — attribute stores, augmented assignments, item assignments, calls of mutating methods (`list.append`, …
and DarSIA's own in-place methods), `out=` arguments, `np.random.<fn>` calls. `declaredWrites` is what the heap
model assumes; the generated table must coincide with it, so a new in-place write in the source breaks a proof
obligation instead of going unnoticed. In a constructor `self` is the new object and not a caller-owned one. -/

inductive SrcFn
  | imageInit | scalarInit | opticalInit | copy | add | sub | mul | lt | gt | eq | le | ge | astype | imgAs
  | metadata | opticalMetadata | timeSlice | timeInterval | slice | subregion | append | setTime
  | toTrichromatic | toMonochromatic | weight | superpose | stack | resizeCall | resize | equalizeVoxelSize
  | uniformRefinement | axisReductionCall | reduceAxis | extrude | zerosLike | onesLike | randomPatches
  | clipModelCall | linearModelCall | scalingModelCall | emdCall | emdPreprocess | geometryIntegrate
  deriving DecidableEq, Repr

def SrcFn.all : List SrcFn :=
  [.imageInit, .scalarInit, .opticalInit, .copy, .add, .sub, .mul, .lt, .gt, .eq, .le, .ge, .astype, .imgAs,
   .metadata, .opticalMetadata, .timeSlice, .timeInterval, .slice, .subregion, .append, .setTime,
   .toTrichromatic, .toMonochromatic, .weight, .superpose, .stack, .resizeCall, .resize, .equalizeVoxelSize,
   .uniformRefinement, .axisReductionCall, .reduceAxis, .extrude, .zerosLike, .onesLike, .randomPatches,
   .clipModelCall, .linearModelCall, .scalingModelCall, .emdCall, .emdPreprocess, .geometryIntegrate]

inductive WRoot | self | arg | globalRng
  deriving DecidableEq, Repr

inductive WAttr
  | img | series | date | time | time_dim | time_num | color_space | dimensions | origin | cached_voxel_volume
  | set_time | other
  deriving DecidableEq, Repr

inductive WKind | store | aug | setitem | call | out | rng
  deriving DecidableEq, Repr

structure SrcWrite where
  root : WRoot
  kind : WKind
  attr : WAttr
  deriving DecidableEq, Repr

/-- what the model assumes about the source: only the documented in-place methods write, and only to `self` -/
def declaredWrites : SrcFn → List SrcWrite
  | .append => [⟨.self, .aug, .time_num⟩, ⟨.self, .call, .set_time⟩, ⟨.self, .store, .date⟩, ⟨.self, .store, .img⟩,
                ⟨.self, .store, .series⟩, ⟨.self, .store, .time_dim⟩]
  | .setTime => [⟨.self, .store, .time⟩]
  | .toTrichromatic => [⟨.self, .store, .color_space⟩, ⟨.self, .store, .img⟩]
  | .geometryIntegrate => [⟨.self, .store, .cached_voxel_volume⟩]
  | _ => []

def sameSet (a b : List SrcWrite) : Bool := a.all (b.contains ·) && b.all (a.contains ·)

/-- the source functions a modelled call stands for -/
def Op.srcFns : Op → List SrcFn
  | .ctor _ => [.imageInit, .scalarInit, .opticalInit]
  | .copy _ => [.copy]
  | .add _ _ => [.add, .imageInit, .metadata]
  | .sub _ _ => [.sub, .imageInit, .metadata]
  | .mul _ _ _ => [.mul, .copy]
  | .cmpImg _ _ _ | .cmpNum _ _ _ => [.lt, .gt, .eq, .le, .ge, .zerosLike, .scalarInit, .metadata]
  | .astype _ | .astypeClass _ _ => [.astype, .copy, .metadata]
  | .timeSlice _ _ => [.timeSlice, .metadata]
  | .timeInterval _ _ _ => [.timeInterval, .metadata]
  | .subregion _ _ _ _ => [.subregion, .metadata]
  | .weightNum _ _ | .weightImg _ _ _ => [.weight, .copy]
  | .stack _ => [.stack, .copy]
  | .copyRebind _ _ _ => [.imgAs, .copy, .clipModelCall]
  | .derive _ _ _ => [.resizeCall, .resize, .equalizeVoxelSize, .uniformRefinement, .zerosLike, .onesLike, .metadata]
  | .toMono _ _ _ => [.toMonochromatic, .copy, .scalarInit, .opticalMetadata]
  | .reduceAxis _ _ _ _ _ => [.axisReductionCall, .reduceAxis, .metadata]
  | .extrude _ _ _ _ => [.extrude, .metadata]
  | .superpose _ _ _ _ _ => [.superpose, .scalarInit]
  | .measure _ _ => [.emdCall, .emdPreprocess]
  | .arrMap _ _ => [.linearModelCall, .clipModelCall, .scalingModelCall]

/-- executable well-formedness / typing checks (sound for `WF` / `Typed`, see `DarsiaProofs.HeapShare`) -/
def wfCheck (h : Heap) : Bool := h.all fun v => v.refs.all (· < h.length)

def typedCheck (h : Heap) : Bool :=
  h.all fun v => match v with
    | .img r => ((h[r.date]?).map Val.isT == some true) && ((h[r.time]?).map Val.isT == some true)
    | .view b _ _ => (match h[b]? with | some (.arr _ _) => true | _ => false)
    | _ => true

end Darsia.Heap
