/-
Model of the finite-volume utilities (src/darsia/utils/fv.py) on the grid model `DarsiaModel.Grid`.
Face fluxes and cell fields are functions of the flat face / cell number (`U f`, `P c`); the drivers pass
`fun k => list.getD k 0`.  Exact rationals; core Lean only.
-/
import DarsiaModel.Grid
namespace Darsia

def prodR : List Rat → Rat
  | [] => 1
  | x :: xs => x * prodR xs

/-- `Grid.face_vol[a] = prod(voxel_size without a)` -/
def area (h : List Rat) (a : Nat) : Rat := prodR (h.eraseIdx a)

/-- `prod(voxel_size)` -/
def vol (h : List Rat) : Rat := prodR h

/-! ### `FVDivergence.mat` : triples `(conn f .1, f, +area)`, `(conn f .2, f, -area)` (duplicates summed by CSC) -/

def divEntry (shape : List Nat) (h : List Rat) (c f : Nat) : Rat :=
  (if c = (conn shape f).1 then area h (faceAxis shape f) else 0) +
  (if c = (conn shape f).2 then -area h (faceAxis shape f) else 0)

/-! `FVDivergence.__init__` as coded: COO triplets `t = 0 … 2·num_faces-1`
(`data = area·tile([1,-1])`, `row = ravel(connectivity)`, `col = repeat(arange(num_faces), 2)`), summed into a matrix -/

def tripRow (shape : List Nat) (t : Nat) : Nat := if t % 2 = 0 then (conn shape (t / 2)).1 else (conn shape (t / 2)).2
def tripCol (t : Nat) : Nat := t / 2
def tripData (shape : List Nat) (h : List Rat) (t : Nat) : Rat :=
  area h (faceAxis shape (t / 2)) * (if t % 2 = 0 then 1 else -1)

/-- the assembled matrix, row-major dense (`entry (c, f)` at `c·num_faces + f`): zeros, then every triplet added -/
def divAssembled (shape : List Nat) (h : List Rat) : List Rat :=
  accumN (List.replicate (numCells shape * numFaces shape) 0)
    (fun t => tripRow shape t * numFaces shape + tripCol t) (tripData shape h) (2 * numFaces shape)

/-- `(FVDivergence.mat @ U)[c]` -/
def divApply (shape : List Nat) (h : List Rat) (U : Nat → Rat) (c : Nat) : Rat :=
  sumTo (numFaces shape) (fun f => divEntry shape h c f * U f)

/-- flux through the upper face of cell `idx` along axis `a` (0 on the outer boundary) -/
def uHi (shape : List Nat) (U : Nat → Rat) (a : Nat) (idx : List Nat) : Rat :=
  if idx.getD a 0 + 1 < shape.getD a 0 then U (faceNum shape a idx) else 0

/-- flux through the lower face of cell `idx` along axis `a` (0 on the outer boundary) -/
def uLo (shape : List Nat) (U : Nat → Rat) (a : Nat) (idx : List Nat) : Rat :=
  if 1 ≤ idx.getD a 0 then U (faceNum shape a (unbump idx a)) else 0

/-- net outflow of a cell: `Σ_a area_a · (flux through upper face − flux through lower face)` -/
def netOutflow (shape : List Nat) (h : List Rat) (U : Nat → Rat) (idx : List Nat) : Rat :=
  sumTo shape.length (fun a => area h a * (uHi shape U a idx - uLo shape U a idx))

/-! ### `FVMass(grid, mode).mat` : diagonal, `prod(voxel_size)` for cells and (lumped) faces alike -/

def massEntry (h : List Rat) (i j : Nat) : Rat := if i = j then vol h else 0

/-- which `FVMass(grid, mode, lumping)` calls succeed: `"cells"` always (lumping is ignored), `"faces"` only lumped
(`NotImplementedError` otherwise), any other mode leaves `mass_matrix` unbound (`UnboundLocalError`) -/
inductive MassMode | cells | faces | other
  deriving DecidableEq, Repr
def massGuard (mode : MassMode) (lumping : Bool) : Except Err Unit :=
  match mode with
  | .cells => .ok ()
  | .faces => if lumping then .ok () else .error .notImpl
  | .other => .error .unbound

/-! ### `face_to_cell(grid, U, pt)[idx, a]` : shifted-slice accumulation
`cell_flux[:-1 along a, a] += pt[a]·U_a ; cell_flux[1: along a, a] += (1-pt[a])·U_a` -/

def faceToCell (shape : List Nat) (U : Nat → Rat) (pt : List Rat) (idx : List Nat) (a : Nat) : Rat :=
  pt.getD a 0 * uHi shape U a idx + (1 - pt.getD a 0) * uLo shape U a idx

/-- `face_to_cell` as coded, component `a`, flat in Fortran order: zeros, then
`cell_flux[:-1 along a, a] += pt[a]·U_a` and `cell_flux[1: along a, a] += (1-pt[a])·U_a` (slice accumulation through the
index arrays of the two slices) -/
def faceToCellTable (shape : List Nat) (U : Nat → Rat) (pt : List Rat) (a : Nat) : List Rat :=
  accumN
    (accumN (List.replicate (numCells shape) 0) (loCellOf shape a)
      (fun k => pt.getD a 0 * U (offset shape a + k)) (nfa shape a))
    (hiCellOf shape a) (fun k => (1 - pt.getD a 0) * U (offset shape a + k)) (nfa shape a)

/-! ### `cell_to_face_average(grid, q, mode)[f]`; `q a c` = the component used for faces of axis `a`
(the scalar itself, vector component `a`, or tensor diagonal `a,a`), flat cell number `c` -/

inductive AvgMode | arithmetic | harmonic
  deriving DecidableEq, Repr

/-- the `mode` argument of `cell_to_face_average`: exactly the two documented spellings, anything else `ValueError` -/
def avgModeOf (arith harm : Bool) : Except Err AvgMode :=
  if arith then .ok .arithmetic else if harm then .ok .harmonic else .error .value


/-- `scipy.stats.hmean` of two numbers: `NaN` (`none`) as soon as one is negative, `0` as soon as one is `0`,
`2/(1/x + 1/y)` otherwise -/
def hmean2 (x y : Rat) : Option Rat :=
  if x < 0 ∨ y < 0 then none else some (if x = 0 ∨ y = 0 then 0 else 2 / (1 / x + 1 / y))

/-- `none` = NaN -/
def cellToFace (shape : List Nat) (mode : AvgMode) (q : Nat → Nat → Rat) (f : Nat) : Option Rat :=
  let a := faceAxis shape f
  let x := q a (conn shape f).1
  let y := q a (conn shape f).2
  match mode with
  | .arithmetic => some ((1 / 2 : Rat) * (x + y))
  | .harmonic => hmean2 x y

/-- how `cell_to_face_average` reads its argument: a scalar field (`ndim == dim`, or a trailing axis of length 1), a
vector field (trailing axis `dim`: component `a` is used for faces of axis `a`) or a tensor field (trailing axes
`dim × dim`: the diagonal entry `a,a` is used) -/
inductive QKind | scalar | vector | tensor
  deriving DecidableEq, Repr

/-- the flat component array the code builds: `cell_qty.ravel("F")`, `cell_qty[..., a].ravel("F")`,
`cell_qty[..., a, a].ravel("F")`.  `arr` is the cell quantity with the cell index flattened in Fortran order and the
trailing (component) axes in C order: scalar `arr c`, vector `arr (c·dim + i)`, tensor `arr ((c·dim + i)·dim + j)`. -/
def selectComp (dim : Nat) (kind : QKind) (arr : Nat → Rat) (a c : Nat) : Rat :=
  match kind with
  | .scalar => arr c
  | .vector => arr (c * dim + a)
  | .tensor => arr ((c * dim + a) * dim + a)

/-- the dispatch of `cell_to_face_average` on `cell_qty.shape`: `trailing` = the axes after the `dim` spatial ones.
`len(shape) == dim` or a trailing axis of length 1 → scalar (checked first, so in 1-D a trailing `1` is a scalar);
trailing `dim` → vector; trailing `dim, dim` → tensor; everything else `NotImplementedError` -/
def kindOf (dim : Nat) (trailing : List Nat) : Except Err QKind :=
  match trailing with
  | [] => .ok .scalar
  | [n] => if n = 1 then .ok .scalar else if n = dim then .ok .vector else .error .notImpl
  | [n, m] => if n = dim ∧ m = dim then .ok .tensor else .error .notImpl
  | _ => .error .notImpl

/-- `cell_to_face_average(grid, cell_qty, mode)[f]` on the full (scalar / vector / tensor) cell array -/
def cellToFaceQ (shape : List Nat) (mode : AvgMode) (kind : QKind) (arr : Nat → Rat) (f : Nat) : Option Rat :=
  cellToFace shape mode (selectComp shape.length kind arr) f

/-! ### tangential reconstruction (`FVTangentialFaceReconstruction`, `FVFullFaceReconstruction`) -/

/-- `np.delete(range(dim), a)[i]` -/
def otherAxis (a i : Nat) : Nat := if i < a then i else i + 1

/-- contribution `0.25·U[r]` of one reverse-connectivity lookup, dropped when there is no face -/
def quarter (U : Nat → Rat) (r : Int) : Rat := if r = -1 then 0 else (1 / 4 : Rat) * U r.toNat

/-- `(FVTangentialFaceReconstruction.mat[i] @ U)[f]` -/
def tang (shape : List Nat) (U : Nat → Rat) (i f : Nat) : Rat :=
  let b := otherAxis (faceAxis shape f) i
  let lo := (conn shape f).1
  let hi := (conn shape f).2
  quarter U (rev shape b lo 0) + quarter U (rev shape b lo 1) + quarter U (rev shape b hi 0) + quarter U (rev shape b hi 1)

/-- `FVFullFaceReconstruction(grid)(U)[f, b]` -/
def fullFlux (shape : List Nat) (U : Nat → Rat) (f b : Nat) : Rat :=
  let a := faceAxis shape f
  if b = a then U f else tang shape U (if b < a then b else b - 1) f

end Darsia
