/-
Executable model (exact rationals) of the linear-solve formulations of
`VariationalWassersteinDistance.linear_solve` (C08, C04):

* `assembleFull`   : the block matrix `[[W, −Dᵀ, 0],[D, 0, −cᵀ],[0, c, 0]]` (`sps.bmat` in
                     `_setup_discretization` / `jacobian` / `_update_regularization`);
* `eliminateFlux`  : Schur complement on the diagonal flux block (`eliminate_flux`);
* `eliminateMultiplier` : drop row/column `k` and the multiplier row/column
                     (`eliminate_lagrange_multiplier`, dense reference of the CSC surgery);
* `fluxUpdate`     : `compute_flux_update`;
* `linearSolve`    : the three branches of `linear_solve`, the inner solver being exact Gauss–Jordan
                     elimination (the real back-ends are parameters with a recorded tolerance).

The divergence `D` is an input (abstract matrix); nothing here knows about grids.
Core Lean only.
-/
import DarsiaModel.Basic
namespace Darsia.Saddle
open Darsia

abbrev Vec := Array Rat
abbrev Mat := Array (Array Rat)

def Mat.get (a : Mat) (i j : Nat) : Rat := (a.getD i #[]).getD j 0

def zeros (n m : Nat) : Mat := Array.replicate n (Array.replicate m 0)

def mulVec (a : Mat) (x : Vec) : Vec :=
  a.map fun row => (row.zipWith (· * ·) x).foldl (· + ·) 0

/-- sparse triplets `(row, col, value)` → dense `nc × nf` -/
def ofTriplets (nc nf : Nat) (ts : List (Nat × Nat × Rat)) : Mat :=
  ts.foldl (fun a (c, e, v) => a.modify c fun row => row.modify e (· + v)) (zeros nc nf)

/-- full block system; dof order `[flux | pressure | multiplier]` -/
def assembleFull (w : Vec) (D : Mat) (k : Nat) : Mat :=
  let nf := w.size
  let nc := D.size
  let n := nf + nc + 1
  Array.ofFn (n := n) fun i : Fin n =>
    Array.ofFn (n := n) fun j : Fin n =>
      let i := i.val; let j := j.val
      if i < nf then
        if j < nf then (if i = j then w.getD i 0 else 0)
        else if j < nf + nc then - D.get (j - nf) i
        else 0
      else if i < nf + nc then
        if j < nf then D.get (i - nf) j
        else if j < nf + nc then 0
        else (if i - nf = k then -1 else 0)
      else
        if nf ≤ j ∧ j < nf + nc ∧ j - nf = k then 1 else 0

/-- `eliminate_flux`: `(reduced matrix, reduced rhs, W⁻¹)`; the flux block is read off the diagonal
of the given matrix exactly as the code does (`jacobian.diagonal()[flux_slice]`). -/
def eliminateFlux (full : Mat) (rhs : Vec) (nf : Nat) : Mat × Vec × Vec :=
  let n := full.size
  let jinv : Vec := Array.ofFn (n := nf) fun e => 1 / full.get e.val e.val
  let m := n - nf
  let red : Mat := Array.ofFn (n := m) fun i : Fin m => Array.ofFn (n := m) fun j : Fin m =>
    full.get (nf + i.val) (nf + j.val) +
      (List.range nf).foldl (fun s e => s + full.get (nf + i.val) e * jinv.getD e 0 * full.get (nf + j.val) e) 0
  let rr : Vec := Array.ofFn (n := m) fun i : Fin m =>
    rhs.getD (nf + i.val) 0 -
      (List.range nf).foldl (fun s e => s + full.get (nf + i.val) e * jinv.getD e 0 * rhs.getD e 0) 0
  (red, rr, jinv)

def dropAt {α} (xs : Array α) (rm : List Nat) : Array α :=
  ((List.range xs.size).zip xs.toList).filterMap (fun (p, x) => if rm.contains p then none else some x) |>.toArray

/-- dense reference of the CSC surgery -/
def dropRowCol (a : Mat) (k last : Nat) : Mat := (dropAt a [k, last]).map fun row => dropAt row [k, last]

/-- `eliminate_lagrange_multiplier`; raises when the last reduced rhs entry is not (almost) zero -/
def eliminateMultiplier (red : Mat) (rr : Vec) (k : Nat) : Except Err (Mat × Vec) :=
  let last := red.size - 1
  let r := rr.getD last 0
  if r > 1 / 1000000 ∨ r < - (1 / 1000000) then .error .notImpl
  else .ok (dropRowCol red k last, dropAt rr [k, last])

/-- `compute_flux_update`: `W⁻¹ (g + Dᵀ-part · (p, lam))`, `DT = full[nf:, :nf]ᵀ` -/
def fluxUpdate (full : Mat) (jinv : Vec) (rhs : Vec) (sol : Vec) (nf : Nat) : Vec :=
  Array.ofFn (n := nf) fun e : Fin nf =>
    jinv.getD e.val 0 * (rhs.getD e.val 0 +
      (List.range (full.size - nf)).foldl (fun s i => s + full.get (nf + i) e.val * sol.getD (nf + i) 0) 0)

/-- exact Gauss–Jordan elimination; `none` when singular -/
def solveLin (a : Mat) (b : Vec) : Option Vec := Id.run do
  let n := a.size
  let mut m : Mat := (a.zip b).map fun (row, bi) => row.push bi
  for c in [0:n] do
    let mut piv := n
    for r in [c:n] do
      if piv = n ∧ m.get r c ≠ 0 then piv := r
    if piv = n then return none
    let rowP := m.getD piv #[]
    let rowC := m.getD c #[]
    m := (m.setIfInBounds piv rowC).setIfInBounds c rowP
    let p := rowP.getD c 1
    let rowN := rowP.map (· / p)
    m := m.setIfInBounds c rowN
    for r in [0:n] do
      if r ≠ c then
        let f := m.get r c
        if f ≠ 0 then
          m := m.modify r fun row => row.zipWith (fun x y => x - f * y) rowN
  return some (m.map fun row => row.getD n 0)

inductive Form | full | fluxReduced | pressure
  deriving DecidableEq, Repr

/-- the three branches of `linear_solve(matrix, rhs, previous_solution)` with an exact inner solver.
`prevPk` is `previous_solution[num_faces + k]` when a previous solution is passed. -/
def linearSolve (form : Form) (full : Mat) (rhs : Vec) (nf k : Nat) (prevPk : Option Rat := none) :
    Except Err Vec :=
  match form with
  | .full => match solveLin full rhs with
    | some x => .ok x
    | none => .error .other
  | .fluxReduced =>
    let (red, rr, jinv) := eliminateFlux full rhs nf
    match solveLin red rr with
    | none => .error .other
    | some y =>
      let sol : Vec := Array.replicate nf 0 ++ y
      .ok (fluxUpdate full jinv rhs sol nf ++ y)
  | .pressure =>
    if (match prevPk with | some v => decide (v > 1 / 1000000 ∨ v < -(1 / 1000000)) | none => false) then
      .error .notImpl
    else
    let (red, rr, jinv) := eliminateFlux full rhs nf
    match eliminateMultiplier red rr k with
    | .error e => .error e
    | .ok (fr, frr) =>
      match solveLin fr frr with
      | none => .error .other
      | some y =>
        -- scatter into the pressure dofs ≠ k; p_k and the multiplier stay zero
        let nc := red.size - 1
        let p : Vec := Array.ofFn (n := nc) fun c : Fin nc =>
          if c.val < k then y.getD c.val 0 else if c.val = k then 0 else y.getD (c.val - 1) 0
        let sol : Vec := Array.replicate nf 0 ++ p ++ #[0]
        .ok (fluxUpdate full jinv rhs sol nf ++ p ++ #[0])

end Darsia.Saddle
