/-
Executable model (exact rationals) of the linear-solve formulations of
`VariationalWassersteinDistance.linear_solve` (C08, C04):

* `assembleFull`   : the block matrix `[[W, −Dᵀ, 0],[D, 0, −cᵀ],[0, c, 0]]` (`sps.bmat` in
                     `_setup_discretization` / `jacobian` / `_update_regularization`);
* `eliminateFlux`  : Schur complement on the diagonal flux block (`eliminate_flux`);
* `eliminateMultiplier` : drop row/column `k` and the multiplier row/column
                     (`eliminate_lagrange_multiplier`, dense reference of the CSC surgery);
* `fluxUpdate`     : `compute_flux_update`;
* `linearSolve`    : the three branches of `linear_solve`, the inner solver being exact Gauss–Jordan
                     elimination (the real back-ends are parameters with a recorded tolerance).

The divergence `D` is an input (abstract matrix); nothing here knows about grids.
Core Lean only.
-/
import DarsiaModel.Basic
import DarsiaModel.Grid
namespace Darsia.Saddle
open Darsia

abbrev Vec := Array Rat
abbrev Mat := Array (Array Rat)

def Mat.get (a : Mat) (i j : Nat) : Rat := (a.getD i #[]).getD j 0

/-- tabulate a matrix / a vector from its entry function (the only way matrices are built below, so that every
operator is specified by an entry formula) -/
def tab (n m : Nat) (f : Nat → Nat → Rat) : Mat :=
  Array.ofFn (n := n) fun i : Fin n => Array.ofFn (n := m) fun j : Fin m => f i.val j.val
def tabV (n : Nat) (f : Nat → Rat) : Vec := Array.ofFn (n := n) fun i : Fin n => f i.val

def zeros (n m : Nat) : Mat := Array.replicate n (Array.replicate m 0)

/-- `a @ x` (`sumTo n f = Σ_{j<n} f j`) -/
def mulVec (a : Mat) (x : Vec) : Vec :=
  tabV a.size fun i => sumTo x.size fun j => a.get i j * x.getD j 0

/-- sparse triplets `(row, col, value)` → dense `nc × nf` -/
def ofTriplets (nc nf : Nat) (ts : List (Nat × Nat × Rat)) : Mat :=
  ts.foldl (fun a (c, e, v) => a.modify c fun row => row.modify e (· + v)) (zeros nc nf)

/-- entry `(i, j)` of the full block system `[[W, −Dᵀ, 0],[D, 0, −cᵀ],[0, c, 0]]`; dof order
`[flux | pressure | multiplier]` -/
def fullEntry (w : Vec) (D : Mat) (k : Nat) (i j : Nat) : Rat :=
  let nf := w.size
  let nc := D.size
  if i < nf then
    if j < nf then (if i = j then w.getD i 0 else 0)
    else if j < nf + nc then - D.get (j - nf) i
    else 0
  else if i < nf + nc then
    if j < nf then D.get (i - nf) j
    else if j < nf + nc then 0
    else (if i - nf = k then -1 else 0)
  else
    if nf ≤ j ∧ j < nf + nc ∧ j - nf = k then 1 else 0

def assembleFull (w : Vec) (D : Mat) (k : Nat) : Mat :=
  tab (w.size + D.size + 1) (w.size + D.size + 1) (fullEntry w D k)

/-- entries of `eliminate_flux`: Schur complement on the diagonal flux block, read off the given matrix exactly
as the code does (`jacobian.diagonal()[flux_slice]`, `D = jacobian[reduced, flux]`) -/
def redEntry (full : Mat) (nf : Nat) (i j : Nat) : Rat :=
  full.get (nf + i) (nf + j) +
    sumTo nf fun e => full.get (nf + i) e * (1 / full.get e e) * full.get (nf + j) e
def redRhsEntry (full : Mat) (rhs : Vec) (nf : Nat) (i : Nat) : Rat :=
  rhs.getD (nf + i) 0 - sumTo nf fun e => full.get (nf + i) e * (1 / full.get e e) * rhs.getD e 0

/-- `eliminate_flux`: `(reduced matrix, reduced rhs, W⁻¹)` -/
def eliminateFlux (full : Mat) (rhs : Vec) (nf : Nat) : Mat × Vec × Vec :=
  let m := full.size - nf
  (tab m m (redEntry full nf), tabV m (redRhsEntry full rhs nf), tabV nf fun e => 1 / full.get e e)

/-- index of the reduced system → index of the unreduced one (skips `k`) -/
def up (k i : Nat) : Nat := if i < k then i else i + 1

/-- dense reference of the CSC surgery: rows and columns `k` and `last = size - 1` dropped (entry `(i, j)` of the
result is entry `(up k i, up k j)`; `DarsiaProps.C08.csc_surgery_dense` proves the array surgery does exactly this) -/
def dropRowCol (a : Mat) (k : Nat) : Mat := tab (a.size - 2) (a.size - 2) fun i j => a.get (up k i) (up k j)
def dropVec (x : Vec) (k : Nat) : Vec := tabV (x.size - 2) fun i => x.getD (up k i) 0

/-- `eliminate_lagrange_multiplier`; raises when the last reduced rhs entry is not (almost) zero -/
def eliminateMultiplier (red : Mat) (rr : Vec) (k : Nat) : Except Err (Mat × Vec) :=
  let last := red.size - 1
  let r := rr.getD last 0
  if r > 1 / 1000000 ∨ r < - (1 / 1000000) then .error .notImpl
  else .ok (dropRowCol red k, dropVec rr k)

/-- `compute_flux_update`: `W⁻¹ (g + Dᵀ-part · (p, lam))`, `DT = full[nf:, :nf]ᵀ`; `y` is the reduced solution -/
def fluxEntry (full : Mat) (rhs : Vec) (y : Vec) (nf : Nat) (e : Nat) : Rat :=
  (1 / full.get e e) * (rhs.getD e 0 + sumTo (full.size - nf) fun i => full.get (nf + i) e * y.getD i 0)
def fluxUpdateV (full : Mat) (rhs : Vec) (y : Vec) (nf : Nat) : Vec := tabV nf (fluxEntry full rhs y nf)

/-- scatter the pure-pressure solution into `(p, lam)`: `p_k = 0`, `lam = 0` -/
def scatter (y : Vec) (k nc : Nat) : Vec :=
  tabV (nc + 1) fun c => if c < k then y.getD c 0 else if c = k then 0 else if c < nc then y.getD (c - 1) 0 else 0

/-- exact Gauss–Jordan elimination; `none` when singular -/
def solveLin (a : Mat) (b : Vec) : Option Vec := Id.run do
  let n := a.size
  let mut m : Mat := (a.zip b).map fun (row, bi) => row.push bi
  for c in [0:n] do
    let mut piv := n
    for r in [c:n] do
      if piv = n ∧ m.get r c ≠ 0 then piv := r
    if piv = n then return none
    let rowP := m.getD piv #[]
    let rowC := m.getD c #[]
    m := (m.setIfInBounds piv rowC).setIfInBounds c rowP
    let p := rowP.getD c 1
    let rowN := rowP.map (· / p)
    m := m.setIfInBounds c rowN
    for r in [0:n] do
      if r ≠ c then
        let f := m.get r c
        if f ≠ 0 then
          m := m.modify r fun row => row.zipWith (fun x y => x - f * y) rowN
  return some (m.map fun row => row.getD n 0)

inductive Form | full | fluxReduced | pressure
  deriving DecidableEq, Repr

/-- the three branches of `linear_solve(matrix, rhs, previous_solution)` with an exact inner solver.
`prevPk` is `previous_solution[num_faces + k]` when a previous solution is passed. -/
def linearSolve (form : Form) (full : Mat) (rhs : Vec) (nf k : Nat) (prevPk : Option Rat := none) :
    Except Err Vec :=
  match form with
  | .full => match solveLin full rhs with
    | some x => .ok x
    | none => .error .other
  | .fluxReduced =>
    let (red, rr, _) := eliminateFlux full rhs nf
    match solveLin red rr with
    | none => .error .other
    | some y => .ok (fluxUpdateV full rhs y nf ++ y)
  | .pressure =>
    if (match prevPk with | some v => decide (v > 1 / 1000000 ∨ v < -(1 / 1000000)) | none => false) then
      .error .notImpl
    else
    let (red, rr, _) := eliminateFlux full rhs nf
    match eliminateMultiplier red rr k with
    | .error e => .error e
    | .ok (fr, frr) =>
      match solveLin fr frr with
      | none => .error .other
      | some y =>
        -- scatter into the pressure dofs ≠ k; p_k and the multiplier stay zero
        let pl := scatter y k (red.size - 1)
        .ok (fluxUpdateV full rhs pl nf ++ pl)

end Darsia.Saddle
