/-
C09 — model of `darsia/corrections/shape/affine.py` (AffineTransformation) and of the rotation pair of
`darsia/corrections/shape/rotation.py` (RotationCorrection), dimension 2 and 3.

Everything is polymorphic in the scalar type (only the core operation classes are used, no Mathlib), so the
same definitions are *executed* at `Rat` by the driver and *reasoned about* over an arbitrary commutative
ring / field in `DarsiaProps.C09` (a real angle θ is the pair (c, s) = (cos θ, sin θ) with c² + s² = 1; the
driver instantiates c = (1−t²)/(1+t²), s = 2t/(1+t²), i.e. θ = 2·atan t).

`set_parameters` builds `rotation` and `rotation_inv` side by side in one loop over the three Cartesian axes:
    rotation     = rotation · E_i            (E_i  = from_rotvec( flip_i·θ_i·e_{axis_i}))
    rotation_inv = E_i' · rotation_inv       (E_i' = from_rotvec(−flip_i·θ_i·e_{axis_i}))     [after fix]
The tree before the fix multiplied `rotation_inv · E_i'` (same order as the forward factors); that version is
kept as `rotInvSameOrder` so that the defect is a theorem (`DarsiaProps.C09.same_order_not_inverse`).
-/
import DarsiaModel.Basic
namespace Darsia.Affine

structure V2 (α : Type) where
  x : α
  y : α
  deriving DecidableEq, Repr

structure V3 (α : Type) where
  x : α
  y : α
  z : α
  deriving DecidableEq, Repr

/-- 2×2 matrix, row major -/
structure M2 (α : Type) where
  a11 : α
  a12 : α
  a21 : α
  a22 : α
  deriving DecidableEq, Repr

/-- 3×3 matrix, row major -/
structure M3 (α : Type) where
  a11 : α
  a12 : α
  a13 : α
  a21 : α
  a22 : α
  a23 : α
  a31 : α
  a32 : α
  a33 : α
  deriving DecidableEq, Repr

section ops
variable {α : Type} [Add α] [Sub α] [Mul α] [Neg α] [Div α] [OfNat α 0] [OfNat α 1]

def V2.add (u v : V2 α) : V2 α := ⟨u.x + v.x, u.y + v.y⟩
def V2.sub (u v : V2 α) : V2 α := ⟨u.x - v.x, u.y - v.y⟩
def V2.smul (k : α) (v : V2 α) : V2 α := ⟨k * v.x, k * v.y⟩
def V2.dot (u v : V2 α) : α := u.x * v.x + u.y * v.y
def V3.add (u v : V3 α) : V3 α := ⟨u.x + v.x, u.y + v.y, u.z + v.z⟩
def V3.sub (u v : V3 α) : V3 α := ⟨u.x - v.x, u.y - v.y, u.z - v.z⟩
def V3.smul (k : α) (v : V3 α) : V3 α := ⟨k * v.x, k * v.y, k * v.z⟩
def V3.dot (u v : V3 α) : α := u.x * v.x + u.y * v.y + u.z * v.z

def M2.one : M2 α := ⟨1, 0, 0, 1⟩
def M2.mul (A B : M2 α) : M2 α :=
  ⟨A.a11 * B.a11 + A.a12 * B.a21, A.a11 * B.a12 + A.a12 * B.a22,
   A.a21 * B.a11 + A.a22 * B.a21, A.a21 * B.a12 + A.a22 * B.a22⟩
def M2.transpose (A : M2 α) : M2 α := ⟨A.a11, A.a21, A.a12, A.a22⟩
def M2.det (A : M2 α) : α := A.a11 * A.a22 - A.a12 * A.a21
def M2.mulVec (A : M2 α) (v : V2 α) : V2 α := ⟨A.a11 * v.x + A.a12 * v.y, A.a21 * v.x + A.a22 * v.y⟩

def M3.one : M3 α := ⟨1, 0, 0, 0, 1, 0, 0, 0, 1⟩
def M3.mul (A B : M3 α) : M3 α :=
  ⟨A.a11 * B.a11 + A.a12 * B.a21 + A.a13 * B.a31,
   A.a11 * B.a12 + A.a12 * B.a22 + A.a13 * B.a32,
   A.a11 * B.a13 + A.a12 * B.a23 + A.a13 * B.a33,
   A.a21 * B.a11 + A.a22 * B.a21 + A.a23 * B.a31,
   A.a21 * B.a12 + A.a22 * B.a22 + A.a23 * B.a32,
   A.a21 * B.a13 + A.a22 * B.a23 + A.a23 * B.a33,
   A.a31 * B.a11 + A.a32 * B.a21 + A.a33 * B.a31,
   A.a31 * B.a12 + A.a32 * B.a22 + A.a33 * B.a32,
   A.a31 * B.a13 + A.a32 * B.a23 + A.a33 * B.a33⟩
def M3.transpose (A : M3 α) : M3 α :=
  ⟨A.a11, A.a21, A.a31, A.a12, A.a22, A.a32, A.a13, A.a23, A.a33⟩
def M3.det (A : M3 α) : α :=
  A.a11 * (A.a22 * A.a33 - A.a23 * A.a32) - A.a12 * (A.a21 * A.a33 - A.a23 * A.a31)
    + A.a13 * (A.a21 * A.a32 - A.a22 * A.a31)
def M3.mulVec (A : M3 α) (v : V3 α) : V3 α :=
  ⟨A.a11 * v.x + A.a12 * v.y + A.a13 * v.z,
   A.a21 * v.x + A.a22 * v.y + A.a23 * v.z,
   A.a31 * v.x + A.a32 * v.y + A.a33 * v.z⟩

/-! ### 2-D: `Rotation.from_rotvec(±θ·e_z).as_matrix()[:2, :2]` -/

def rot2 (c s : α) : M2 α := ⟨c, -s, s, c⟩
def rot2Inv (c s : α) : M2 α := ⟨c, s, -s, c⟩

/-! ### 3-D: elementary rotations `Rotation.from_rotvec(θ·e_k).as_matrix()` -/

inductive Ax3 | a0 | a1 | a2
  deriving DecidableEq, Repr

def elem : Ax3 → α → α → M3 α
  | .a0, c, s => ⟨1, 0, 0, 0, c, -s, 0, s, c⟩
  | .a1, c, s => ⟨c, 0, s, 0, 1, 0, -s, 0, c⟩
  | .a2, c, s => ⟨c, -s, 0, s, c, 0, 0, 0, 1⟩

/-- one pass of the loop in `set_parameters`: the matrix axis and flip flag come from
`interpret_indexing(cartesian_axis, "xyz")`, the angle is (c, s) -/
structure Factor (α : Type) where
  axis : Ax3
  flip : Bool
  c : α
  s : α

/-- sine of `flip_factor * degree` -/
def Factor.sf (f : Factor α) : α := if f.flip then -f.s else f.s
def Factor.fwd (f : Factor α) : M3 α := elem f.axis f.c f.sf
def Factor.inv (f : Factor α) : M3 α := elem f.axis f.c (-f.sf)

/-- the loop of `set_parameters` / `RotationCorrection.__init__` (3-D), as the code multiplies:
`rotation = rotation @ E`, `rotation_inv = E' @ rotation_inv` -/
def rotationLoop (fs : List (Factor α)) : M3 α × M3 α :=
  fs.foldl (fun (p : M3 α × M3 α) f => (M3.mul p.1 f.fwd, M3.mul f.inv p.2)) (M3.one, M3.one)

def rotation (fs : List (Factor α)) : M3 α := (rotationLoop fs).1
def rotationInv (fs : List (Factor α)) : M3 α := (rotationLoop fs).2

/-- the inverse as the unfixed tree accumulated it: `rotation_inv = rotation_inv @ E'` -/
def rotInvSameOrder (fs : List (Factor α)) : M3 α :=
  fs.foldl (fun (R : M3 α) f => M3.mul R f.inv) M3.one

/-! ### the affine map -/

structure Affine2 (α : Type) where
  t : V2 α
  σ : α
  R : M2 α
  Rinv : M2 α

structure Affine3 (α : Type) where
  t : V3 α
  σ : α
  R : M3 α
  Rinv : M3 α

/-- `call_array`: translation + scaling · (rotation · x) -/
def Affine2.call (T : Affine2 α) (x : V2 α) : V2 α := V2.add T.t (V2.smul T.σ (T.R.mulVec x))
/-- `inverse_array`: 1/scaling · (rotation_inv · (x − translation)) -/
def Affine2.inverse (T : Affine2 α) (x : V2 α) : V2 α := V2.smul (1 / T.σ) (T.Rinv.mulVec (V2.sub x T.t))
def Affine3.call (T : Affine3 α) (x : V3 α) : V3 α := V3.add T.t (V3.smul T.σ (T.R.mulVec x))
def Affine3.inverse (T : Affine3 α) (x : V3 α) : V3 α := V3.smul (1 / T.σ) (T.Rinv.mulVec (V3.sub x T.t))

/-- `AffineTransformation(2).set_parameters(translation, scaling, [θ])` -/
def Affine2.mk' (t : V2 α) (σ c s : α) : Affine2 α := ⟨t, σ, rot2 c s, rot2Inv c s⟩
/-- `AffineTransformation(3).set_parameters(translation, scaling, [θx, θy, θz])` -/
def Affine3.mk' (t : V3 α) (σ : α) (fs : List (Factor α)) : Affine3 α := ⟨t, σ, rotation fs, rotationInv fs⟩

end ops

/-! ### `AffineTransformation.fit`: DarSIA's own algebra around the optimiser (round 4)

`fit` shifts the source points by p = mean(dst) − mean(src) ("preconditioning"), lets the optimiser find parameters
(t', σ, R) for the SHIFTED points starting from the identity, and folds the shift back: t = t' + σ·R·p. -/

section fit
variable {α : Type} [Add α] [Sub α] [Mul α] [Neg α] [Div α] [OfNat α 0] [OfNat α 1]

def sumV2 : List (V2 α) → V2 α
  | [] => ⟨0, 0⟩
  | v :: vs => V2.add v (sumV2 vs)
def sumV3 : List (V3 α) → V3 α
  | [] => ⟨0, 0, 0⟩
  | v :: vs => V3.add v (sumV3 vs)

/-- `np.mean(pts, axis=0)`; `n` is the number of points as a scalar -/
def meanV2 (n : α) (l : List (V2 α)) : V2 α := ⟨(sumV2 l).x / n, (sumV2 l).y / n⟩
def meanV3 (n : α) (l : List (V3 α)) : V3 α := ⟨(sumV3 l).x / n, (sumV3 l).y / n, (sumV3 l).z / n⟩

/-- preconditioning translation: centre of mass of the destination points minus that of the source points -/
def precond2 (n : α) (src dst : List (V2 α)) : V2 α := V2.sub (meanV2 n dst) (meanV2 n src)
def precond3 (n : α) (src dst : List (V3 α)) : V3 α := V3.sub (meanV3 n dst) (meanV3 n src)

/-- folding the shift back into the translation: t = t' + σ · (R · p) -/
def foldBack2 (t' : V2 α) (σ : α) (R : M2 α) (p : V2 α) : V2 α := V2.add t' (V2.smul σ (R.mulVec p))
def foldBack3 (t' : V3 α) (σ : α) (R : M3 α) (p : V3 α) : V3 α := V3.add t' (V3.smul σ (R.mulVec p))

/-- least-squares objective of `fit`: Σ |dst_i − T(src_i)|² -/
def fitObjective2 (T : Affine2 α) : List (V2 α × V2 α) → α
  | [] => 0
  | (s, d) :: rest => let r := V2.sub d (T.call s); V2.dot r r + fitObjective2 T rest
def fitObjective3 (T : Affine3 α) : List (V3 α × V3 α) → α
  | [] => 0
  | (s, d) :: rest => let r := V3.sub d (T.call s); V3.dot r r + fitObjective3 T rest

/-- `fit` (2-D) with the optimiser as a parameter: `opt` receives the shifted point pairs and returns (t', σ, c, s);
`precondition = false` hands it the original pairs and nothing is folded back -/
def fit2 (precondition : Bool) (n : α) (opt : List (V2 α × V2 α) → V2 α × α × α × α) (src dst : List (V2 α)) : Affine2 α :=
  let p : V2 α := if precondition then precond2 n src dst else ⟨0, 0⟩
  let r := opt ((src.map fun x => V2.add x p).zip dst)
  Affine2.mk' (if precondition then foldBack2 r.1 r.2.1 (rot2 r.2.2.1 r.2.2.2) p else r.1) r.2.1 r.2.2.1 r.2.2.2

end fit

/-! ### parameter-setting histories on ONE AffineTransformation object (round 6)

`set_parameters(translation=None, scaling=None, rotation=None)` updates only what is given; `set_parameters_as_vector`
sets everything: the scaling is the vector's entry, or 1 when the object is in isometry mode (short vector). -/

section phist
variable {α : Type} [OfNat α 1]

structure PState (α : Type) where
  t : V2 α
  σ : α
  c : α
  s : α

inductive POp (α : Type)
  | set (t : Option (V2 α)) (σ : Option α) (rot : Option (α × α))
  | vec (isometry : Bool) (t : V2 α) (σ : α) (c s : α)      -- σ is ignored (absent from the vector) in isometry mode

def pstep (st : PState α) : POp α → PState α
  | .set t σ rot => ⟨t.getD st.t, σ.getD st.σ, (rot.map (·.1)).getD st.c, (rot.map (·.2)).getD st.s⟩
  | .vec iso t σ c s => ⟨t, if iso then 1 else σ, c, s⟩

def prun (st : PState α) (ops : List (POp α)) : PState α := ops.foldl pstep st

end phist

/-- rational point on the unit circle for the angle 2·atan t -/
def cosT (t : Rat) : Rat := (1 - t * t) / (1 + t * t)
def sinT (t : Rat) : Rat := (2 * t) / (1 + t * t)

/-- the three factors of `set_parameters` in 3-D: `interpret_indexing(a, "xyz")` = (0|1|2, no flip) -/
def xyzFactors (flips : List Bool) (ts : List Rat) : List (Factor Rat) :=
  (([Ax3.a0, Ax3.a1, Ax3.a2].zip flips).zip ts).map fun p => ⟨p.1.1, p.1.2, cosT p.2, sinT p.2⟩

end Darsia.Affine
