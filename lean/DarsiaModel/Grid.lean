/-
Model of `darsia.Grid` (src/darsia/utils/grid.py, `Grid._setup`) in generic dimension: the shape is a
`List Nat`, cells are numbered in Fortran order (`encF`), the (inner) faces with normal axis `a` are the
multi-indices of the box `shape - e_a` (`fshape`), numbered `offset a + encF (fshape a) idx`.
Core Lean only.  numpy slicing + `ravel("F")` is modelled pointwise: entry `k` of `ravel(A[sl], "F")` is `A`
at the `k`-th multi-index (Fortran order) of the sliced box.
-/
import DarsiaModel.Basic
namespace Darsia

/-! ### finite sums used by all grid / finite-volume statements -/

/-- `Σ_{i<n} f i` -/
def sumTo (n : Nat) (f : Nat → Rat) : Rat :=
  match n with
  | 0 => 0
  | n + 1 => sumTo n f + f n

/-- sum over all multi-indices of a box; the first index runs fastest (Fortran order) -/
def sumBox : List Nat → (List Nat → Rat) → Rat
  | [], f => f []
  | n :: ns, f => sumBox ns (fun is => sumTo n (fun i => f (i :: is)))

/-! ### index arithmetic -/

/-- `shape - e_a` : `faces_shape[a]` -/
def fshape : List Nat → Nat → List Nat
  | [], _ => []
  | n :: ns, 0 => (n - 1) :: ns
  | n :: ns, a + 1 => n :: fshape ns a

/-- `idx + e_a` -/
def bump : List Nat → Nat → List Nat
  | [], _ => []
  | i :: is, 0 => (i + 1) :: is
  | i :: is, a + 1 => i :: bump is a

/-- `idx - e_a` (truncated) -/
def unbump : List Nat → Nat → List Nat
  | [], _ => []
  | i :: is, 0 => (i - 1) :: is
  | i :: is, a + 1 => i :: unbump is a

/-- `num_faces_per_axis[a] = prod(shape - e_a)` -/
def nfa (shape : List Nat) (a : Nat) : Nat := prodL (fshape shape a)

/-- first face number of axis `a` : `sum(num_faces_per_axis[:a])` -/
def offset (shape : List Nat) : Nat → Nat
  | 0 => 0
  | a + 1 => offset shape a + nfa shape a

def numCells (shape : List Nat) : Nat := prodL shape
def numFaces (shape : List Nat) : Nat := offset shape shape.length

/-- number of the face of axis `a` with multi-index `idx` : `face_index[a][idx]` -/
def faceNum (shape : List Nat) (a : Nat) (idx : List Nat) : Nat :=
  offset shape a + encF (fshape shape a) idx

/-- largest `a' ≤ a` whose block of faces starts at or before `f` -/
def faceAxisUpTo (shape : List Nat) (f : Nat) : Nat → Nat
  | 0 => 0
  | a + 1 => if offset shape (a + 1) ≤ f then a + 1 else faceAxisUpTo shape f a

/-- normal axis of face number `f` -/
def faceAxis (shape : List Nat) (f : Nat) : Nat := faceAxisUpTo shape f (shape.length - 1)

/-- multi-index of face number `f` within its axis -/
def faceIdx (shape : List Nat) (f : Nat) : List Nat :=
  decF (fshape shape (faceAxis shape f)) (f - offset shape (faceAxis shape f))

/-- `connectivity[f] = (cell_index[idx], cell_index[idx + e_a])` -/
def conn (shape : List Nat) (f : Nat) : Nat × Nat :=
  (encF shape (faceIdx shape f), encF shape (bump (faceIdx shape f) (faceAxis shape f)))

/-- `reverse_connectivity[a, c, side]`; `-1` = no face -/
def rev (shape : List Nat) (a c side : Nat) : Int :=
  let idx := decF shape c
  if side = 0 then
    if 1 ≤ idx.getD a 0 then (faceNum shape a (unbump idx a) : Int) else -1
  else
    if idx.getD a 0 + 1 < shape.getD a 0 then (faceNum shape a idx : Int) else -1

/-! ### the tables as the code builds them: index arrays + assignment (`A[keys] = vals`) -/

/-- `tbl[κ 0], tbl[κ 1], … , tbl[κ (n-1)] = ν 0, … , ν (n-1)` executed in this order (numpy fancy assignment;
a repeated key keeps the last value) -/
def scatterN {α : Type} (tbl : List α) (κ : Nat → Nat) (ν : Nat → α) : Nat → List α
  | 0 => tbl
  | n + 1 => setAt (scatterN tbl κ ν n) (κ n) (ν n)

/-- `tbl[κ i] += ν i` for `i = 0 … n-1` in this order (slice `+=` over an index array; COO → CSC assembly, where repeated
keys are summed) -/
def accumN (tbl : List Rat) (κ : Nat → Nat) (ν : Nat → Rat) : Nat → List Rat
  | 0 => tbl
  | n + 1 => setAt (accumN tbl κ ν n) (κ n) ((accumN tbl κ ν n).getD (κ n) 0 + ν n)

/-- `np.ravel(cell_index[:-1 along a], "F")[k]` -/
def loCellOf (shape : List Nat) (a k : Nat) : Nat := encF shape (decF (fshape shape a) k)

/-- `np.ravel(cell_index[1: along a], "F")[k]` -/
def hiCellOf (shape : List Nat) (a k : Nat) : Nat := encF shape (bump (decF (fshape shape a) k) a)

/-- `connectivity[:, side]` after the assignments for the axes `0 … a-1`:
`connectivity = zeros; connectivity[faces[b], side] = ravel(cell_index[shifted slice], "F")` -/
def connFold (shape : List Nat) (side : Nat) : Nat → List Nat
  | 0 => List.replicate (numFaces shape) 0
  | a + 1 => scatterN (connFold shape side a) (fun k => offset shape a + k)
      (fun k => if side = 0 then loCellOf shape a k else hiCellOf shape a k) (nfa shape a)

/-- `connectivity[:, side]` -/
def connTable (shape : List Nat) (side : Nat) : List Nat := connFold shape side shape.length

/-- `reverse_connectivity[a, :, side]`: `-ones; rev[a, ravel(cell_index[1: along a]), 0] = faces[a];
rev[a, ravel(cell_index[:-1 along a]), 1] = faces[a]` -/
def revTable (shape : List Nat) (a side : Nat) : List Int :=
  scatterN (List.replicate (numCells shape) (-1 : Int))
    (fun k => if side = 0 then hiCellOf shape a k else loCellOf shape a k)
    (fun k => ((offset shape a + k : Nat) : Int)) (nfa shape a)

/-- which constructor calls `Grid(shape, voxel_size)` the code accepts (`h` = the per-axis list after the scalar /
list normalisation): `face_vol` indexes `voxel_size[np.delete(arange(dim), d)]` (IndexError if too short in ≥ 2-D),
then `assert len(voxel_size) == dim`; dimensions other than 1–3 raise `NotImplementedError`
(the `else` branch of the interior-face slicing); an extent 0 makes a face count negative and `np.zeros` raises
`ValueError` (two extents 0 already fail when the face index arrays are reshaped, before the dimension check).  All theorems about the tables are stated for the model on every shape; the code only ever
builds the tables for shapes passing this guard. -/
def gridGuard (shape : List Nat) (h : List Rat) : Except Err Unit :=
  if h.length < shape.length ∧ 2 ≤ shape.length then .error .index  -- `face_vol` indexes `voxel_size` first
  else if h.length ≠ shape.length then .error .assertion
  else if 2 ≤ shape.countP (fun n => n == 0) then .error .value     -- reshaping the face index arrays (two extents -1)
  else if shape.length = 0 ∨ 3 < shape.length then .error .notImpl  -- interior-face slicing, before the tables are allocated
  else if shape.any (fun n => n == 0) then .error .value            -- a negative face count in `np.zeros`
  else .ok ()

/-- the axes along which `interior_faces[a]` is sliced `1:-1` (code as it is: in 1-D along the normal axis
itself, in 2-D/3-D along all tangential axes) -/
def interiorAxes (dim a : Nat) : List Nat :=
  if dim = 1 then [0] else (List.range dim).filter (fun b => b ≠ a)

/-- the face multi-index survives the `1:-1` slices -/
def isInterior (shape : List Nat) (a : Nat) (idx : List Nat) : Bool :=
  (interiorAxes shape.length a).all fun b =>
    decide (1 ≤ idx.getD b 0) && decide (idx.getD b 0 + 1 < (fshape shape a).getD b 0)

def facesOf (shape : List Nat) (a : Nat) : List Nat :=
  (List.range (nfa shape a)).map (fun k => offset shape a + k)

def interiorFaces (shape : List Nat) (a : Nat) : List Nat :=
  ((boxF (fshape shape a)).filter (isInterior shape a)).map (faceNum shape a)

/-- `sorted(set(faces[a]) - set(interior_faces[a]))` -/
def exteriorFaces (shape : List Nat) (a : Nat) : List Nat :=
  (facesOf shape a).filter (fun f => !(interiorFaces shape a).contains f)

end Darsia
